#!/bin/bash
# Offline setup: warms the go1.26.8 build cache (standard library with and without the race
# runtime, the library under test, the monitors) so that the checks only relink. Builds from
# files on disk only; fetches nothing.
set -e
cd "$(dirname "$0")/harness"
export GOFLAGS=-mod=mod GOPROXY=off GOSUMDB=off GOTOOLCHAIN=local CGO_ENABLED=1
mkdir -p ../.bin ../logs ../evidence ../replays
go1.26.8 version
go1.26.8 test -c -tags verif -vet=off -o ../.bin/setup.test ./mon
go1.26.8 test -c -tags verif -vet=off -race -o ../.bin/setup.race.test ./mon
rm -f ../.bin/setup.test ../.bin/setup.race.test
echo "setup ok"
