#!/bin/bash
# keep_round.sh <suffix> <offset>: keeps every processed seed of a round as /verif/seeded/<id>-<n+offset>, from logs/round<suffix>/
SUF=$1; OFF=$2
for f in /verif/logs/round$SUF/*.log; do
  b=$(basename $f .log); id=${b%-*}; n=${b#*-}
  [ -n "$ONLY" ] && ! echo " $ONLY " | grep -q " $id " && continue
  d=/tmp/seed/${id}$SUF/_seed/$n
  [ -d /verif/seeded/$id-$((n+OFF)) ] && continue   # kept already (its meta.json may carry notes)
  ok=1
  grep -q "^ok" $f || ok=0                       # demo passes on the pristine tree
  grep -q -- "--- FAIL\|^ *[0-9]* FAIL\|panic" $f || ok=0    # demo fails with the change
  grep "suite exit=" $f | grep -qv "exit=0" && ok=0
  grep -q "suite exit=0" $f || ok=0
  if [ $ok = 0 ]; then echo "NOT CONFIRMED $b"; continue; fi
  caught=$(grep -oE "patch.diff C[0-9]+ rc=1" $f | awk '{print $2}' | paste -sd,)
  all=$(grep -oE "patch.diff C[0-9]+ rc=[0-9]+" $f | awk '{print $2":"$3}' | paste -sd' ')
  [ -z "$caught" ] && caught=none
  python3 /verif/tools/keep_seed.py $d $id-$((n+OFF)) "$caught" "tools/process_seed.sh (verify_seed.sh in a scratch worktree, then tools/mutant.sh quick tier, seed 1, sandbox copy): $all"
done
