#!/bin/bash
# Confirms a seeded change in the scratch worktree /tmp/srepo:
#   1. demo passes on the pristine tree, 2. demo fails with the patch, 3. the pinned suite of the touched module(s) passes with the patch.
# usage: tools/verify_seed.sh <seed dir with patch.diff> <demo file> <package dir relative to repo root> <test regex> [count]
S=$(readlink -f "$1"); DEMO=$2; PKG=$3; RX=$4; CNT=${5:-3}
export GOFLAGS=-mod=mod GOPROXY=off GOSUMDB=off GOTOOLCHAIN=local
R=/tmp/srepo$MUT_ID
if [ ! -d $R ]; then git -C /repo worktree add -q --detach $R HEAD || exit 2; fi
git -C $R checkout -q --detach "$(git -C /repo rev-parse HEAD)"; git -C $R checkout -- .; git -C $R clean -fdq
trap "git -C $R checkout -- . >/dev/null 2>&1; git -C $R clean -fdq" EXIT
MOD=.; case "$PKG" in v2/*) MOD=v2;; esac
REL=${PKG#v2/}
cp "$S/$DEMO" "$R/$PKG/" || exit 2
echo "--- demo on pristine tree (x$CNT)"
(cd $R/$MOD && go test -mod=mod -vet=off -count=$CNT -run "$RX" ./$REL/ 2>&1 | tail -4); 
git -C $R apply "$S/patch.diff" || { echo "patch does not apply"; exit 2; }
echo "--- demo with the change (x$CNT)"
(cd $R/$MOD && go test -mod=mod -vet=off -count=$CNT -run "$RX" ./$REL/ 2>&1 | grep -E "^(--- FAIL|FAIL|ok|panic)" | sort | uniq -c | head -6)
rm -f "$R/$PKG/$DEMO"
echo "--- pinned suite with the change"
for m in $(git -C $R diff --name-only | sed -n 's#^v2/.*#v2#p; s#^[^v].*#.#p' | sort -u); do
  (cd $R/$m && go test -mod=mod -vet=off -count=1 -timeout 25m ./... 2>&1 | grep -v "^ok\|no test files" | head -10; echo "module $m suite exit=${PIPESTATUS[0]}")
done
