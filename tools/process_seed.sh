#!/bin/bash
# process_seed.sh <seed dir> <checks...>: confirms the seeded change (demo passes pristine / fails patched / suite passes)
# and runs the given checks against it in the sandbox; prints a compact report.
D=$(readlink -f "$1"); shift
demo=$(ls "$D" | grep '_test.go$' | grep -v pin_v2 | head -1)
# the package of the demo: DEMO.md says where to put it; fall back to the directory of the first changed file
pkg=$(grep -oE '(v2/)?(priority(/simple|/divider|/utils)?|join(/unite)?|limit)/?' "$D/DEMO.md" | head -1 | sed 's#/$##')
first=$(grep '^+++ b/' "$D/patch.diff" | head -1 | sed 's#+++ b/##')
[ -z "$pkg" ] && pkg=$(dirname "$first")
[ -n "$SEED_PKG" ] && pkg=$SEED_PKG
case "$first" in v2/*) case "$pkg" in v2/*) ;; *) pkg="v2/$pkg";; esac;; esac
grep -q "^package" "$D/$demo" || { echo "no demo"; exit 2; }
rx=$(grep -h "^func Test" "$D/$demo" | sed 's/func \(Test[A-Za-z0-9_]*\).*/\1/' | paste -sd'|')
echo "### $D demo=$demo pkg=$pkg"
/verif/tools/verify_seed.sh "$D" "$demo" "$pkg" "$rx" 1 2>&1 | grep -v "^WARNING\|^--- demo\|^--- pinned" | cut -c1-160
LINES_SHOWN=2 /verif/tools/mutant.sh "$D/patch.diff" "$@" 2>&1 | cut -c1-300
