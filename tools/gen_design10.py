#!/usr/bin/env python3
"""Regenerates section 10 of DESIGN.md (validation of the monitors) from seeded/*/meta.json and
notes/mutant-matrix.txt (written by tools/mutant_matrix.sh)."""
import glob
import json
import os
import re

V = '/verif'
short = {
    'C01-1': 'v1: re-adding a priority zeroes its in-flight counter (needs RemoveInput with items in flight, then AddInput of the same priority)',
    'C01-2': "v1: clearActual forgets a removed priority's non-zero counter (`||` for `&&`)",
    'C02-1': 'v1: AddInput over a closed+drained channel keeps the stale Drained flag: the new channel is never read, termination is normal',
    'C02-2': 'v1: AddInput on a registered priority becomes a no-op (guard moved before the assignment)',
    'C03-1': 'unite: timeout flush made non-blocking; with a full output buffer the accumulated slice is dropped',
    'C03-2': 'v2 join: on timeout a pending input is read without the closed check: a zero element is appended when tick and close coincide',
    'C04-1': 'limit: interval starts anchored to a drift-free schedule: after a stall N batches leave back to back',
    'C04-2': 'limit: sleeps shorter than 1 ms are skipped: no limit at all for Interval <= 1 ms',
    'C05-1': 'v2: `>=` for `>` in the top-up test: after grouped releases the vacancies are re-divided instead of topped up',
    'C05-2': 'v1: constructor divides before sorting: shares computed on map-iteration order',
    'C06-1': 'v2: redistribution skipped when phase one took nothing: a lone priority above its share is not topped up in a second burst',
    'C06-2': 'v1: first recalc division uses the remainder instead of H: a dominant lone priority stays at its share',
    'C07-1': 'same code change as C02-1 (written by a different agent)',
    'C07-2': 'v1 Simple: Err() closed before wg.Wait(): termination signalled while Handle calls still run (needs a rough end and a slow Handle)',
    'C08-1': 'v1 join no-copy: cancel between delivery and release no longer freezes the buffer (select picks input before ctx in ~half the runs)',
    'C08-2': 'unite copy mode: oversize slices forwarded without a clone',
    'C09-1': 'unite: passAt stamped before the (blocking) send: with a full output the next short slice follows at once',
    'C09-2': 'v2 join: passAt not initialised: the first tick flushes a partial first slice at Timeout/d',
    'C10-1': 'v2 join: timeout restarted on every element (`>= 1` for `== 1`): a trickle is never flushed',
    'C10-2': 'unite: ticker period = Timeout instead of Timeout/d: up to 2x Timeout when out of phase',
    'C11-1': 'unite without timeout: oversize fast path overtakes the accumulated data',
    'C11-2': 'unite copy mode: oversize slices go through the buffer; after the capacity grew, later oversize slices are glued to accumulated data (two cooperating sites)',
    'C12-1': 'limit: `int(Quantity)` loop bound: nothing passes and the output never closes for Quantity > MaxInt64',
    'C12-2': 'limit: sleeps Interval - duration % Interval: an extra pause after a batch that took longer than Interval',
    'C13-1': 'rate: `>` for `>=` (the revert of repaired defect #1)',
    'C13-2': 'rate: IsInt64 for IsUint64: quantities in (2^63, 2^64) rejected',
    'C14-1': 'v2 Rate: leftover added as one unit (`++`): not conserved with >= 5 priorities',
    'C14-2': 'v1 Rate: multiply before divide: differs from v2 on exact-half shares',
    'C15-1': 'v2: error of the first recalc division ignored: a one-shot fault there goes unreported',
    'C15-2': "v2: `&&` for `||` in the constructor's zero-share test: absent shares accepted again",
    'C16-1': 'v1 join: send no longer watches Stop: Stop() hangs with a full output and no reader',
    'C16-2': 'v1: getOneFeedback no longer watches the context: cancel hangs with all handlers busy',
    'C17-1': 'same code change as C02-1 / C07-1 (third agent)',
    'C17-2': 'same code change as C01-1 (different agent)',
    'C18-1': 'IsNonFatalConfig no longer sorts: wrong on unsorted input',
    'C18-2': 'PickUpMinNonFatalQuantity: `<` for `<=`: max itself never tried',
    'C19-1': 'v1 Simple: graceful helper untracked and sending on an unbuffered channel: left blocked after Stop-after-GracefulStop',
    'C19-2': 'v2: output/feedback closed only on the success path: v2 simple handlers left after a divider fault',
    'C20-1': 'same code change as C08-1',
    'C20-2': 'same code change as C08-2',
}


def main():
    out = []
    w = out.append
    w('## 10. Validating the monitors: what was done and what came out\n')
    w('1. **Silence.** Every check, quick tier, at VERIF_SEED 1..7, and the thorough tier at seeds 1..3, from fresh\n'
      '   processes on the repaired tree (partly while eight sub-agents were running test suites on the same\n'
      '   machine): no VIOLATION. `vp check` (fresh copy of the sandbox, setup + all quick commands): clean.\n'
      '   What the sweeps did turn up were harness defects (section 6, "false alarms met while building") and one\n'
      '   real-clock scenario that could not terminate (a fatal v1 configuration drawn by a generator bug), all\n'
      '   corrected in the machinery.\n')
    w('2. **Sensitivity, my own mutants** (`mutants/*.diff`, written while building each monitor; applied to a scratch\n'
      '   worktree by `tools/mutant.sh`, never to `/repo`). `tools/mutant_matrix.sh` runs each against the checks that\n'
      '   own the touched behaviour; result (quick tier):\n')
    mpath = os.path.join(V, 'notes', 'mutant-matrix.txt')
    own = {}
    seeded = {}
    if os.path.exists(mpath):
        for line in open(mpath):
            p = line.split()
            if len(p) != 4:
                continue
            kind, name, chk, verdict = p
            (own if kind == 'own' else seeded).setdefault(name, []).append((chk, verdict))
    if own:
        w('   | mutant | caught by | silent (other properties) |')
        w('   |---|---|---|')
        for name in sorted(own):
            c = ' '.join(x for x, v in own[name] if v == 'CAUGHT')
            s = ' '.join(x + ('(inconclusive)' if v == 'inconclusive' else '') for x, v in own[name] if v != 'CAUGHT')
            w('   | %s | %s | %s |' % (name, c or '-', s or '-'))
        w('')
        w('   Not caught by any check, and not expected to be: `prio-v2-uncrowded-le-equivalent` (`<` -> `<=` in\n'
          '   `updateUncrowded`: a priority exactly at its share gets a tactic of 0 either way; no stated property\n'
          '   changes) and `join-v1-drop-unreleased-guard-reset` (`resetJoin` without the guard only re-slices; the\n'
          '   guard in `process` still prevents every write). They are kept as documented equivalents rather than\n'
          '   "fixed" by tightening an oracle. An `inconclusive` entry means the run could not complete because the\n'
          '   mutant made the library hang or crash in a way that is a witness against another property (reported by\n'
          '   that property\'s own check).\n')
    w('3. **Sensitivity, independent changes.** For every property a fresh sub-agent got only the property text and its\n'
      '   own scratch worktree (nothing from `/verif`) and wrote two changes that break the property, still compile and\n'
      '   pass the pinned suite, with a demonstration test. I confirmed each one myself (`tools/verify_seed.sh`: demo\n'
      '   passes on the pristine tree, fails with the patch, pinned suite of the touched module passes with the patch)\n'
      '   and kept it as `seeded/<id>-<k>/` (patch.diff, demonstration, DEMO.md, meta.json). 40 changes, 33 distinct.\n'
      '   **32 were caught by the owning check at the first try; 8 were not (5 of them by no check at all).** Each miss\n'
      '   showed a real weakness - a workload that was too narrow, an oracle that was sound but too weak, or an\n'
      '   observation taken too late - and was closed by strengthening the monitor, never by special-casing the change:\n')
    w('   | change | what it does / what it needs | caught by | first try |')
    w('   |---|---|---|---|')
    for d in sorted(glob.glob(os.path.join(V, 'seeded', '*', ''))):
        name = os.path.basename(d.rstrip('/'))
        m = json.load(open(os.path.join(d, 'meta.json')))
        ran = m.get('what_i_ran', '')
        first = 'yes'
        if re.search(r'first (silent|missed)', ran):
            first = '**no**'
        w('   | %s | %s | %s | %s |' % (name, short.get(name, m['summary'][:120]), ' '.join(m['caught_by_checks']), first))
    w('')
    w('   What the eight misses changed in the machinery: C06-1 -> the lone-burst probe (b\'); C02-1 / C07-1 -> loss at a\n'
      '   normal termination is reported under C02, C07 and C17, closed-and-drained channels are replaced by the\n'
      '   generator, C02 and C07 got the v1 add/remove block; C07-2 -> Handle takes 0-300 ns virtual to return on\n'
      '   cancel and `entered = returned` is compared at the instant of closure (C07 and C16); C09-1 -> stamps before\n'
      '   every receive and the buffer-room bound for slow consumers; C11-1 -> the value-based C11 oracle; C12-1 ->\n'
      '   "unlimited" quantities; C12-2 -> timing form (3). `meta.json` of each change records what was run and seen.\n')
    if seeded:
        bad = [(n, c, v) for n, l in seeded.items() for c, v in l if v != 'CAUGHT']
        w('   Re-run of all 40 after the last strengthening (`tools/mutant_matrix.sh`, quick tier): %d (change, check)\n'
          '   pairs, %d caught%s.\n' % (sum(len(l) for l in seeded.values()), sum(1 for l in seeded.values() for c, v in l if v == 'CAUGHT'),
                                         '' if not bad else '; not caught: ' + ', '.join('%s/%s(%s)' % b for b in bad)))
    w('4. Anything a realistic break leaves invisible gets more observability (another workload or observation\n'
      '   point), not cleverer inference - that is what the eight misses were used for.\n')
    return '\n'.join(out)


if __name__ == '__main__':
    s = open(os.path.join(V, 'DESIGN.md')).read()
    a = s.index('## 10. ')
    b = s.index('## 11. ')
    s = s[:a] + main() + '\n' + s[b:]
    open(os.path.join(V, 'DESIGN.md'), 'w').write(s)
    print('section 10 regenerated')
