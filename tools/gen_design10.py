#!/usr/bin/env python3
"""Regenerates section 10 of DESIGN.md (validation of the monitors) from seeded/*/meta.json and
notes/mutant-matrix.txt (written by tools/mutant_matrix.sh)."""
import glob
import json
import os
import re

V = '/verif'
short = {
    'C01-1': 'v1: re-adding a priority zeroes its in-flight counter (needs RemoveInput with items in flight, then AddInput of the same priority)',
    'C01-2': "v1: clearActual forgets a removed priority's non-zero counter (`||` for `&&`)",
    'C02-1': 'v1: AddInput over a closed+drained channel keeps the stale Drained flag: the new channel is never read, termination is normal',
    'C02-2': 'v1: AddInput on a registered priority becomes a no-op (guard moved before the assignment)',
    'C03-1': 'unite: timeout flush made non-blocking; with a full output buffer the accumulated slice is dropped',
    'C03-2': 'v2 join: on timeout a pending input is read without the closed check: a zero element is appended when tick and close coincide',
    'C04-1': 'limit: interval starts anchored to a drift-free schedule: after a stall N batches leave back to back',
    'C04-2': 'limit: sleeps shorter than 1 ms are skipped: no limit at all for Interval <= 1 ms',
    'C05-1': 'v2: `>=` for `>` in the top-up test: after grouped releases the vacancies are re-divided instead of topped up',
    'C05-2': 'v1: constructor divides before sorting: shares computed on map-iteration order',
    'C06-1': 'v2: redistribution skipped when phase one took nothing: a lone priority above its share is not topped up in a second burst',
    'C06-2': 'v1: first recalc division uses the remainder instead of H: a dominant lone priority stays at its share',
    'C07-1': 'same code change as C02-1 (written by a different agent)',
    'C07-2': 'v1 Simple: Err() closed before wg.Wait(): termination signalled while Handle calls still run (needs a rough end and a slow Handle)',
    'C08-1': 'v1 join no-copy: cancel between delivery and release no longer freezes the buffer (select picks input before ctx in ~half the runs)',
    'C08-2': 'unite copy mode: oversize slices forwarded without a clone',
    'C09-1': 'unite: passAt stamped before the (blocking) send: with a full output the next short slice follows at once',
    'C09-2': 'v2 join: passAt not initialised: the first tick flushes a partial first slice at Timeout/d',
    'C10-1': 'v2 join: timeout restarted on every element (`>= 1` for `== 1`): a trickle is never flushed',
    'C10-2': 'unite: ticker period = Timeout instead of Timeout/d: up to 2x Timeout when out of phase',
    'C11-1': 'unite without timeout: oversize fast path overtakes the accumulated data',
    'C11-2': 'unite copy mode: oversize slices go through the buffer; after the capacity grew, later oversize slices are glued to accumulated data (two cooperating sites)',
    'C12-1': 'limit: `int(Quantity)` loop bound: nothing passes and the output never closes for Quantity > MaxInt64',
    'C12-2': 'limit: sleeps Interval - duration % Interval: an extra pause after a batch that took longer than Interval',
    'C13-1': 'rate: `>` for `>=` (the revert of repaired defect #1)',
    'C13-2': 'rate: IsInt64 for IsUint64: quantities in (2^63, 2^64) rejected',
    'C13-9': 'rate: converted quantity rounded to nearest instead of down: a faster rate comes back when Quantity*minimum leaves a remainder of at least half the Interval',
    'C18-9': 'v2 utils: PickUpMaxNonFatalQuantity returns max at once when max >= sum of the priorities: fatal for Rate when rounding starves the lowest priority ({7,5,3,1} with 24)',
    'C04-9': 'limit: the portion count restarts when Interval passes while waiting for input, the duration is still measured from the old start: 3*Quantity-1 in one burst after a partial portion and an idle boundary (two cooperating sites)',
    'C12-15': 'limit: the pause is rounded to a multiple of 10 ms: Interval 16 ms is throttled to 20 ms',
    'C14-11': 'v2 Rate: dividend converted through float32: dividends above 2^24 are divided wrongly (total still conserved)',
    'C03-17': 'unite: emptiness of the accumulator judged by a counter of united input slices: an empty / nil input slice makes the next flush emit an empty output slice',
    'C10-15': 'v2 join: an element received shortly before expiry suppresses the next tick: flush one tick interval late (needs an accumulation period out of phase with the ticker)',
    'C20-15': 'v1 Simple: Err() closed before the handlers are waited for (same code change as C07-2): the caller reading its results after Err() races with Handle calls still finishing after Stop / cancel',
    'C14-1': 'v2 Rate: leftover added as one unit (`++`): not conserved with >= 5 priorities',
    'C14-2': 'v1 Rate: multiply before divide: differs from v2 on exact-half shares',
    'C15-1': 'v2: error of the first recalc division ignored: a one-shot fault there goes unreported',
    'C15-2': "v2: `&&` for `||` in the constructor's zero-share test: absent shares accepted again",
    'C16-1': 'v1 join: send no longer watches Stop: Stop() hangs with a full output and no reader',
    'C16-2': 'v1: getOneFeedback no longer watches the context: cancel hangs with all handlers busy',
    'C17-1': 'same code change as C02-1 / C07-1 (third agent)',
    'C17-2': 'same code change as C01-1 (different agent)',
    'C18-1': 'IsNonFatalConfig no longer sorts: wrong on unsorted input',
    'C18-2': 'PickUpMinNonFatalQuantity: `<` for `<=`: max itself never tried',
    'C19-1': 'v1 Simple: graceful helper untracked and sending on an unbuffered channel: left blocked after Stop-after-GracefulStop',
    'C19-2': 'v2: output/feedback closed only on the success path: v2 simple handlers left after a divider fault',
    'C20-1': 'same code change as C08-1',
    'C20-2': 'same code change as C08-2',
    'C01-3': 'v2: calcVacants skips the counter of a closed unbuffered input: its held items are not counted as busy',
    'C01-4': 'v1: calcVacants sums only registered inputs: the counter of a removed input is ignored',
    'C02-3': 'v1: removePriority by binary search without equality check: RemoveInput of an ABSENT priority drops the next higher one from the served list',
    'C02-4': 'v2 simple: handler start loop off by one (H-1 handlers; none at all for H=1)',
    'C03-3': 'v1 join: an element arriving between timeout expiry and the next tick triggers the flush and is itself dropped',
    'C03-4': 'unite: accumulator preallocated to min(J,1024) and the fit test uses free capacity: for J > 1024 slices are glued beyond JoinSize (two cooperating sites)',
    'C04-3': 'limit: interval start refreshed only after a real sleep: after one long batch the limiter never delays again',
    'C04-4': 'limit: oversleep compensation without clamp: after a stall the following delays are skipped',
    'C05-3': 'v1: feedback collected between the two phases and the remainder taken from the vacancies: grouped releases are re-divided (two cooperating sites)',
    'C05-4': 'v2: SortPriorities with a subtracting comparator: a priority value above MaxInt sorts as the lowest',
    'C06-3': 'v2: interrupt flag of the unbuffered reader reset every iteration: the scheduler never leaves an idle unbuffered input',
    'C06-4': 'v1 Simple: handler start loop off by one',
    'C07-3': 'v1: clearActual without the zero test: GracefulStop returns while items of a removed priority are unreleased',
    'C07-4': 'v1: a closed unbuffered input is not marked drained: GracefulStop never returns',
    'C08-3': 'v1 join no-copy: pass() no longer honours the unreleased flag: after a stop before release the same buffer is sent again',
    'C08-4': 'v2 join copy mode: outputs are windows of one buffer, capacity not clipped: the spare capacity of a kept slice overlaps later outputs',
    'C09-3': 'v1 join: elapsed time rounded to the tick before the comparison: up to half a tick early',
    'C09-4': 'unite: oversize shortcut tests cap(item) instead of len(item): sub-slices of a big buffer flush the accumulator',
    'C10-3': 'v1 join: time.After per select iteration instead of a ticker: a fast trickle starves the timeout',
    'C10-4': 'v2 join: requested inaccuracy below 25 silently raised to 25',
    'C11-3': 'unite (timeouted loop): closure detected by item == nil: a nil input slice ends the discipline',
    'C11-4': 'unite (timeouted loop): a slice arriving after expiry is forwarded at once, an empty one as an empty output',
    'C12-3': 'limit: only the sends are timed, not the wait for input: a slow portion is followed by a full pause',
    'C12-4': 'limit: an incomplete last portion is treated like a full one: the closure comes one Interval late',
    'C13-3': 'rate: "already flat" shortcut for Quantity 1 ignores the minimum',
    'C13-4': 'rate: uint64 fast path with an addition-style overflow test: wrapped products give a wrong quantity',
    'C14-3': 'v1 Fair: creates a new map when the given one is empty but non-nil',
    'C14-4': 'v1 Rate: leftover spread one unit per priority instead of all to the highest',
    'C15-3': 'v1 safeDivide: `>` for `!=`: under-allocation no longer detected',
    'C15-4': 'v1 addInput: divides before sorting: one call with the new priority at the tail',
    'C16-3': 'same code change as C08-3 (different agent)',
    'C16-4': "v1 Simple: Handle gets the parent context instead of the handler's: Stop() cannot interrupt busy handlers",
    'C17-3': 'v1: isZeroActual looks only at registered priorities: graceful end does not wait for items of a removed priority',
    'C17-4': 'v1: removeInput ignores priorities that have not carried traffic yet',
    'C18-3': 'v1 PickUpMinNonFatalQuantity by binary search over a non-monotone predicate',
    'C18-4': 'v2 constructor: fail-fast guard `H <= len(Inputs)` rejects exactly one handler per input',
    'C19-3': 'same code change as C07-2 (different agent)',
    'C19-4': 'v1: graceful.Complete() moved before the wait for feedback: GracefulStop returns while the goroutine still waits',
    'C20-3': 'v1 RemoveInput reads the inputs map in the caller\'s goroutine',
    'C20-4': 'v2 Release reads the inputs map in the handler\'s goroutine',
}


def main():
    out = []
    w = out.append
    w('## 10. Validating the monitors: what was done and what came out\n')
    w('1. **Silence.** After every change of the harness the affected checks were run at several seeds, and the\n'
      '   whole set repeatedly: with the final harness every check, quick tier, at VERIF_SEED 1..7, 12..17 and 21..24\n'
      '   (14 and 15 once more on the last but one commit; C20, whose bare family was extended last, again at quick seeds\n'
      '   1..9 and thorough seeds 1 and 2; earlier states also 8..11), and the thorough tier at seeds 1, 2 and 3 (earlier states: 1..7), from fresh\n'
      '   processes on the repaired tree, most of the time while seeding agents, mutant matrices or another sweep\n'
      '   loaded the machine: no VIOLATION, no inconclusive exit. `vp check` (fresh copy of the sandbox, setup + all\n'
      '   quick commands): clean. What the sweeps did turn up were defects of the machinery (section 6, "false alarms\n'
      '   met while building"): each new workload or oracle was a new chance for one, and about one in three raised a\n'
      '   false alarm on the unchanged tree at first - found by these sweeps, analysed down to the event, and corrected\n'
      '   in the harness (never by loosening a check that was right). One sweep also found a cost problem rather than\n'
      '   an alarm: scenarios of the harness that left goroutines behind made every later goroutine dump slower, and a\n'
      '   thorough C07 run exceeded its wall limit (inconclusive); the scenarios now end what they started (2375 s ->\n'
      '   277 s). The last thorough sweep (seeds 3 and 4, run while a `vp check` and quick sweeps shared the machine)\n'
      '   had one inconclusive exit, C06 at seed 4: the real-time watchdog of one fake-clock scenario fired after\n'
      '   90 s although the goroutine dump it took showed nothing of that bubble any more; the scenario takes 2 ms\n'
      '   and 6000 replays of it showed nothing. The watchdog now ignores a bubble that is already over and gives a\n'
      '   bubble that is slow but advancing more time (three times at most); a library goroutine that spins is\n'
      '   classified as before.\n')
    w('2. **Sensitivity, my own mutants** (`mutants/*.diff`, written while building each monitor; applied to a scratch\n'
      '   worktree by `tools/mutant.sh`, never to `/repo`). `tools/mutant_matrix.sh` runs each against the checks that\n'
      '   own the touched behaviour; result (quick tier; the 70 (mutant, check) pairs that had been caught were\n'
      '   re-run with the final harness: all still caught, one now ends as inconclusive because the mutant hangs):\n')
    mpath = os.path.join(V, 'notes', 'mutant-matrix.txt')
    own = {}
    seeded = {}
    lines = []
    for f in (mpath, os.path.join(V, 'notes', 'seeded-matrix.txt')):
        if os.path.exists(f):
            lines += open(f).readlines()
    if f == mpath and os.path.exists(os.path.join(V, 'notes', 'seeded-matrix.txt')):
        pass
    if lines:
        have_new = os.path.exists(os.path.join(V, 'notes', 'seeded-matrix.txt'))
        for line in lines:
            p = line.split()
            if len(p) != 4:
                continue
            kind, name, chk, verdict = p
            if kind == 'seeded' and have_new and line in open(mpath).read().splitlines(True):
                continue  # superseded by the newer seeded-only run
            (own if kind == 'own' else seeded).setdefault(name, []).append((chk, verdict))
    if own:
        w('   | mutant | caught by | silent (other properties) |')
        w('   |---|---|---|')
        for name in sorted(own):
            c = ' '.join(x for x, v in own[name] if v == 'CAUGHT')
            s = ' '.join(x + ('(inconclusive)' if v == 'inconclusive' else '') for x, v in own[name] if v != 'CAUGHT')
            w('   | %s | %s | %s |' % (name, c or '-', s or '-'))
        w('')
        w('   Not caught by any check, and not expected to be: `prio-v2-uncrowded-le-equivalent` (`<` -> `<=` in\n'
          '   `updateUncrowded`: a priority exactly at its share gets a tactic of 0 either way; no stated property\n'
          '   changes) and `join-v1-drop-unreleased-guard-reset` (`resetJoin` without the guard only re-slices; the\n'
          '   guard in `process` still prevents every write). They are kept as documented equivalents rather than\n'
          '   "fixed" by tightening an oracle. An `inconclusive` entry means the run could not complete because the\n'
          '   mutant made the library hang or crash in a way that is a witness against another property (reported by\n'
          '   that property\'s own check).\n')
    w('3. **Sensitivity, independent changes.** For every property a fresh sub-agent got only the property text and its\n'
      '   own scratch worktree (nothing from `/verif`) and wrote two changes that break the property, still compile and\n'
      '   pass the pinned suite, with a demonstration test. I confirmed each one myself (`tools/verify_seed.sh`: demo\n'
      '   passes on the pristine tree, fails with the patch, pinned suite of the touched module passes with the patch)\n'
      '   and kept it as `seeded/<id>-<k>/` (patch.diff, demonstration, DEMO.md, meta.json). Several rounds of two changes\n'
      '   per property (every later round was told what the earlier ones had produced and asked for something\n'
      '   different: another mechanism, code site or trigger): rounds 1 and 2 for all 20 properties, round 3 for the 14\n'
      '   behavioural properties of the priority / join / limit disciplines, round 4 for the rest (C04 C10 C13 C14 C18\n'
      '   C20), round 5 for the 12 properties with the most misses so far, round 6 for the other 8, round 7 for 17 properties\n'
      '   (all but C04, C13, C18), round 8 for 13, round 9 for 15, round 10 for 10 and three last short rounds of one change per property, round 11 for C01, C04, C13, C18, round 12 for C04, C12, C14 and round 13 for C03, C10, C20 (from round 8 on the harness was frozen until the changes had been run;\n'
      '   the C01 agent of round 9 found no change that breaks the capacity bound and still passes the existing suite;\n'
      '   in round 11 the changes written for C01 and C04 made the existing suite fail or hang and were not kept):\n'
      '   %d changes. **Caught by the owning check at the first try: round 1: 32 of 40; round\n'
      '   2: 28 of 40; round 3: 19 of 28; round 4: 10 of 12; round 5: 17 of 24; round 6: 13 of 16; round 7: 24 of 35\n'
      '   (four of the eleven misses were closed on reading the agents\' reports, before the changes were run); round\n'
      '   8: 20 of 26; round 9: 22 of 28; round 10: 16 of 20; round 11: 2 of 2; round 12: 3 of 3; round 13: 2 of 3.** Each miss showed a real weakness - a workload that was too\n'
      '   narrow (unusual configurations above all), an oracle that was sound but too weak, an observation taken too\n'
      '   late, or instrumentation that synchronised what it was supposed to watch - and was closed by strengthening\n'
      '   the monitor, never by special-casing the change. After that all are caught by the owning check, except\n'
      '   C05-10 and C05-11, whose effects exist only while the configured set is being changed by AddInput /\n'
      '   RemoveInput - C05 speaks about a configured set, and no sound transitional bound exists (C05-10 is caught by\n'
      '   C01 / C06) - C02-13 / C02-14, which delay or block delivery without ever losing or duplicating an item\n'
      '   in a configuration where delivery is promised (caught by C06), and C07-16, which only acts in v1\n'
      '   configurations that the library documents as possibly not processing a priority (see their `meta.json`):\n' % len(glob.glob(os.path.join(V, 'seeded', '*', ''))))
    w('   | change | what it does / what it needs | caught by | first try |')
    w('   |---|---|---|---|')
    for d in sorted(glob.glob(os.path.join(V, 'seeded', '*', ''))):
        name = os.path.basename(d.rstrip('/'))
        m = json.load(open(os.path.join(d, 'meta.json')))
        ran = m.get('what_i_ran', '')
        first = 'yes'
        if re.search(r'first (silent|missed|inconclusive)', ran) or 'BY DESIGN' in ran:
            first = '**no**'
        w('   | %s | %s | %s | %s |' % (name, short.get(name, m['summary'][:120]), ' '.join(m['caught_by_checks']), first))
    w('')
    w('   What the misses of round 1 changed in the machinery: C06-1 -> the lone-burst probe (b\'); C02-1 / C07-1 -> loss at a\n'
      '   normal termination is reported under C02, C07 and C17, closed-and-drained channels are replaced by the\n'
      '   generator, C02 and C07 got the v1 add/remove block; C07-2 -> Handle takes 0-300 ns virtual to return on\n'
      '   cancel and `entered = returned` is compared at the instant of closure (C07 and C16); C09-1 -> stamps before\n'
      '   every receive and the buffer-room bound for slow consumers; C11-1 -> the value-based C11 oracle; C12-1 ->\n'
      '   "unlimited" quantities; C12-2 -> timing form (3). Round 2: C02-3 -> RemoveInput of priorities that are not\n'
      '   registered; C02-3 / C02-4 -> items that are never delivered are reported under C02 / C17, not only C06;\n'
      '   C03-4 -> JoinSize 1025..4024; C05-4 -> priority values beyond the signed range (and priority 0); C08-3 ->\n'
      '   nothing may follow a no-copy slice that was never released; C09-4 -> input slices cut out of larger buffers;\n'
      '   C11-3 / C11-4 -> nil input slices, never-delivered and empty-output reported under C11; C12-4 -> timing form\n'
      '   (4) for the closure; C17-3 -> an end game that withholds only the items of removed priorities; C19-4 -> the\n'
      '   return of GracefulStop is judged when it is observed (never-early conditions for C07, census for C19). The\n'
      '   misses of round 2 were mostly about unusual inputs, so the generators were also widened where nobody had\n'
      '   asked yet: nil Ctx, buffered Released channel, zero / negative timeouts, two concurrent Stop calls, Stop with\n'
      '   cancel, repeated Stop / GracefulStop after termination, Interval of 1 ns and of months. Round 3: C01-5 -> v1\n'
      '   configurations in which the divider leaves a priority without share are driven with the safety oracles only;\n'
      '   C02-5 -> RemoveInput of inputs that were closed and seen drained; C02-6 -> the caller overwrites its Inputs map\n'
      '   after New; C06-5 -> C06 got the v1 add/remove block and counts a normal termination with undelivered items\n'
      '   as a (finite) refutation of eventual delivery; C07-5 -> a spin of the harness itself; C07-6 -> idle periods\n'
      '   much longer than the progress window before the last close / before a progress probe; C16-5 -> the\n'
      '   Handle-running observation is taken at the return of every one of several overlapping Stop() calls; C19-5 ->\n'
      '   runs that never read Err() after a divider fault; C05-5 -> thought out of reach at first, caught since round 5 (parked\n'
      '   writers). Round 4: C20-5 / C20-6 -> the race detector had been blinded by the monitors themselves (mutex of\n'
      '   the divider monitor, atomics inside Handle): the uninstrumented `bare-priority` family. Round 5: C05-7 ->\n'
      '   saturation of small buffers made a fact by parked senders, on both clocks (section 5, C05); C05-8 -> AddInput with\n'
      '   the channel that is already registered; C07-8 -> v1 configurations without share in termination scenarios;\n'
      '   C08-7 -> Stop() from another goroutine while the consumer keeps reading; C16-7 -> Stop / cancel right after\n'
      '   the constructor, without waiting for quiescence; C17-8 -> removal of the last registered input, and\n'
      '   non-termination after control calls reported under C17; C19-8 -> census right at the completion of a stop and\n'
      '   a Handle that needs 3us to return (this also closed the old exception C19-3). Round 6: C11-7 -> input slices\n'
      '   that are windows of one shared array, a search-based C11 oracle, and a check that no input slice is ever\n'
      '   written to; C11-8 -> a crash inside unite.Release() stays with the running join property instead of being\n'
      '   attributed to C07; C14-7 -> priority 0 in the divider lists. Round 7: C03-9 -> the consumer goes on after a\n'
      '   slice that came out before the release of the previous one; C05-9 -> RemoveInput under saturation; C11-9 /\n'
      '   C11-10 -> consumers that write over the whole capacity of what they own, in the C11 check too; C17-9 -> a\n'
      '   priority without share until another one is removed; C17-10 -> control calls after GracefulStop() was\n'
      '   requested; C19-9 -> blocked goroutines at the instant any Stop() call returns; C19-10 -> census at an early\n'
      '   closure; C20-9 -> plain per-item result slots read by the caller right after a normal termination; C20-10 ->\n'
      '   the pure helpers called concurrently with shared arguments. Round 8: C02-11 -> an input channel with a second\n'
      '   consumer; C07-11 -> an input that is a nil channel; C08-11 -> no-copy stops at arbitrary points and the\n'
      '   check that every v1 slice is a run of consecutive input elements; C15-13 -> faults that give a handler to a\n'
      '   configured priority outside the list. Round 9: C07-14 -> GracefulStop() in the same scheduler pass as the\n'
      '   AddInput before it, with a divider that takes its time; C12-12 -> a reference model of the portion pacing\n'
      '   that holds for any consumer; C16-13 -> Stop() after a divider fault whose error nobody read; C17-14 ->\n'
      '   re-adding a removed priority with its original channel object. Round 10: C11-16 -> timeouts of years;\n'
      '   C17-15 -> AddInput with a nil channel; C19-16 -> blocked goroutines at the instant GracefulStop() returns,\n'
      '   also when it was cut short. Round 13: C20-15 -> in v1 Simple the caller reads what its Handle\n'
      '   calls wrote right after Err() closed also when Stop() / cancel ended the discipline (bare race family). `meta.json` of each change records what was run and seen.\n')
    if seeded:
        def listed(n, c):
            try:
                return c == n.split('-')[0] or c in json.load(open(os.path.join(V, 'seeded', n, 'meta.json'))).get('caught_by_checks', [])
            except OSError:
                return True
        seeded = {n: [(c, v) for c, v in l if listed(n, c)] for n, l in seeded.items()}
        bad = [(n, c, v) for n, l in seeded.items() for c, v in l if v != 'CAUGHT']
        w('   Re-run of the first 249 (rounds 1-9) after round 9 (`tools/mutant_matrix.sh`, quick tier, own check plus the\n'
          '   other checks listed for the change, while seeding agents and a thorough sweep loaded the machine): %d (change,\n'
          '   check) pairs, %d caught%s. An earlier full re-run (after round 8) had shown five detections to be fragile at the\n'
          '   quick tier (C01-7, C02-11, C08-7, C15-6, C20-9: caught at one seed in three) and this one a sixth (C01-3, two\n'
          '   in three; its line is from the re-run after the fix); their workloads were made denser until each was caught at\n'
          '   seeds 1, 2 and 3. The 28 changes of rounds 10 to 13 were run against their checks one by one (`tools/round_batch.sh`,\n'
          '   results in their `meta.json`).\n' % (sum(len(l) for l in seeded.values()), sum(1 for l in seeded.values() for c, v in l if v == 'CAUGHT'),
                                         '' if not bad else '; not caught: ' + ', '.join('%s/%s(%s)' % b for b in bad)))
    w('4. Anything a realistic break leaves invisible gets more observability (another workload or observation\n'
      '   point), not cleverer inference - that is what the misses were used for.\n')
    return '\n'.join(out)


if __name__ == '__main__':
    s = open(os.path.join(V, 'DESIGN.md')).read()
    a = s.index('## 10. ')
    b = s.index('## 11. ')
    s = s[:a] + main() + '\n' + s[b:]
    open(os.path.join(V, 'DESIGN.md'), 'w').write(s)
    print('section 10 regenerated')
