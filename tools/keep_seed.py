#!/usr/bin/env python3
"""keep_seed.py <seed dir> <name> <caught-by, comma separated or 'none'> <free text: what was run / observed>
Copies a confirmed seeded change into /verif/seeded/<name>/ (patch.diff, demonstration, DEMO.md, meta.json)."""
import json, os, shutil, sys
src, name, caught, note = sys.argv[1], sys.argv[2], sys.argv[3], sys.argv[4]
dst = os.path.join('/verif/seeded', name)
os.makedirs(dst, exist_ok=True)
for f in os.listdir(src):
    if f.endswith('.log'):
        continue
    shutil.copy(os.path.join(src, f), os.path.join(dst, f))
meta = json.load(open(os.path.join(src, 'meta.json')))
meta['origin'] = 'written by an independent sub-agent that saw only the property text and a scratch worktree'
meta['confirmed_by_me'] = 'tools/verify_seed.sh: demonstration passes on the pristine tree, fails with patch.diff applied, the pinned suite of the touched module passes with patch.diff applied'
meta['caught_by_checks'] = [] if caught == 'none' else caught.split(',')
meta['what_i_ran'] = note
json.dump(meta, open(os.path.join(dst, 'meta.json'), 'w'), indent=1)
print('kept', dst)
