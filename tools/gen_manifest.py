#!/usr/bin/env python3
"""Writes /verif/MANIFEST.json from the table below (single source of truth for the interface)."""
import json
import os

VERIF = os.path.dirname(os.path.dirname(os.path.abspath(__file__)))

# ids whose check is built and validated; everything else is listed under not_applicable
IMPLEMENTED = ["C%02d" % i for i in range(1, 21)]

V = "testing/synctest fake clock and durable-blocking rules of go1.26.8; the harness (run under -race by the C20 check)"
CHECKS = {
    "C01": dict(cat="exploration", ref="5 (C01), 2 (V)",
                technique="online invariant monitor at the API boundary (received minus release-started <= H after every receive) over the real disciplines stepped through generated operation scripts in synctest bubbles; real-clock atomic-counter monitor with H handler goroutines",
                text="A single stepper goroutine in a virtual-time bubble drives the real, concurrently running discipline (v2, v1, both simple variants) through scripts that drain to quiescence without releasing, release in random groups/orders, add/remove inputs (v1); the in-flight count is conservative (never above the library's own), so every excess is a real violation. Held = no witness in the executions counted in the evidence.",
                note=V + "; releases are issued from their own goroutines (H independent handlers is the documented model)."),
    "C02": dict(cat="exploration", ref="5 (C02), 2 (V, R)",
                technique="online history checker with unique item identities (priority, channel, sequence number): tag, next-expected sequence per channel, exactly-once at termination; interval-order check over recorded receive intervals in the real-clock runs",
                text="Every written item is unique, so one pass over the observed deliveries decides loss, duplication, wrong tag and per-priority order; simple variants: exactly-once of Handle arguments.",
                note=V + "."),
    "C05": dict(cat="exploration", ref="5 (C05), 3 (rules 5, 8)",
                technique="online invariant monitor under a saturation window: per-priority in-flight <= divider share after every receive (fake clock and real clock), equality at checkpoints reached by bounded waiting on the fake clock; shares obtained from the configured divider itself; saturation is established as a fact (prefilled buffers, or senders verified parked in their send), never assumed from writer speed",
                text="Inputs prefilled so that they never run empty, or small buffers (capacity 1..3) kept non-empty by parked senders: re-parked at every quiescent point on the fake clock, one-shot senders verified parked (goroutine dump) before creation on the real clock; the oracle is armed only while that holds; release scripts of all shapes; v1: AddInput of the same channel and RemoveInput of a saturated input (the refill under the new shares is judged); Fair, Rate and custom sum-preserving dividers.",
                note=V + "."),
    "C06": dict(cat="exploration", ref="5 (C06)",
                technique="bounded-liveness monitor on the synctest fake clock (progress within 50us virtual, about 1000 scheduler rounds) plus a real-time watchdog that classifies busy loops from stack samples",
                text="'Eventually' is restated as bounded progress, which a finite run can decide: probes with nothing in flight, a lone priority with >= H buffered items, a lone priority fed in several bursts (must keep progressing unless the scheduler's documented wait applies, which the divider itself decides), and full delivery + termination when handlers release everything. A stuck library shows either as an expired virtual deadline or as a spin caught by the watchdog.",
                note=V + "; the lone-priority form is asserted for buffered data (with items trickling in the scheduler may by design wait for one more feedback)."),
    "C07": dict(cat="exploration", ref="5 (C07)",
                technique="online monitor of closure events: never-early conditions evaluated at the instant a closure is observed, hold observations at quiescent points while a release is withheld / an idle input stays open, bounded wait for the closure afterwards; Err() values checked",
                text="All orders of last close / last release / last read for all four variants, also across v1 AddInput / replace / RemoveInput, and for the simple variants ended roughly while Handle calls run (entered = returned at the instant Err() is seen closed); a Release that panics because the discipline closed early is attributed to this property by the driver.",
                note=V + "."),
    "C15": dict(cat="fault_enumeration", ref="5 (C15)",
                technique="wrapping divider as contract monitor on every call + single-fault enumeration over divider call indices (every index in a window, sampled later ones, state-triggered placements) with post-fault oracles on Err(), delivery window, capacity and termination; constructor grid",
                text="For each base scenario a fault-free run counts the divider calls; one fault of each kind is then placed at every call index of the window and at state triggers, and the run is judged. Enumeration is over call indices of sampled scenarios, not over all scenarios.",
                note=V + "; one fault per run; a placement counts only if the corrupted total is non-zero and differs from the dividend (the property's condition)."),
    "C16": dict(cat="fault_enumeration", ref="5 (C16)",
                technique="signal injection (Stop / cancel / Stop after GracefulStop) after every prefix of generated scripts and in hostile states, with bounded-completion, no-output-after, no-Handle-after and order oracles on the fake clock; watchdog for spins; v1 join signals on both clocks",
                text="Enumerates injection points x signals for v1 priority, v1 Simple and v1 join; the state at injection (all handlers busy, output full, producers blocked, release never sent) is recorded in the evidence.",
                note=V + "; Handle honours its context."),
    "C17": dict(cat="exploration", ref="5 (C17)",
                technique="online history checker over v1 AddInput/RemoveInput scripts: tags per registered channel, frozen taken-count of removed/replaced channels observed at quiescent points, exactly-once per channel, capacity and termination oracles; divider contract monitor",
                text="Scripts of add / replace (also of closed and drained channels, also with the very same channel) / remove (also of unregistered priorities, of drained inputs, of the last input) / re-add with fresh channel objects interleaved with traffic and releases; control calls after GracefulStop was requested; a priority that has no share until another one is removed; control calls run in their own goroutines, one at a time; a real-clock block races the control calls with H handler goroutines and live producers.",
                note=V + "; H is chosen non-fatal for every subset of registrable priorities."),
    "C19": dict(cat="exploration", ref="5 (C19)",
                technique="goroutine census (runtime.Stack filtered by 'created by <library function>') at quiescent points after every way of terminating every discipline on the fake clock; process-wide census with grace period on the real clock",
                text="State-based verdict without a deadline on the fake clock: after termination plus 1us virtual every leftover goroutine is blocked or sleeping forever. Ways covered: input closure, GracefulStop, Stop, cancel (also right after construction), Stop after GracefulStop, overlapping Stop calls (blocked goroutines at the instant each call returns), divider fault with and without a reader of Err(), a closure that comes while items are unreleased.",
                note=V + "; runtime.Stack lists every goroutine with its creator."),
    "C20": dict(cat="exploration", ref="5 (C20), 2 (R)",
                technique="Go race detector over real-clock stress runs of every discipline with real handler / producer / control goroutines (plus a small fake-clock block), including families without any instrumentation of the harness's own (monitor mutexes and atomics are happens-before edges that can hide a race); reports counted and deduplicated by the driver; thorough tier repeats with GODEBUG=asynctimerchan=1",
                text="Any 'WARNING: DATA RACE' block is a witness. Uninstrumented families: private PRNG per goroutine, bare divider, Handle touching only its argument and a plain per-item result slot that the caller reads right after a normal termination (v1 Simple: also right after Err() closed on Stop / cancel); the caller keeps writing to its Inputs map; Stop / cancel right after construction; two concurrent control goroutines; the pure helpers called concurrently with shared arguments. What the detector cannot see: races on paths the workloads do not drive.",
                note="Go race detector of go1.26.8; the race build is kept to a few hundred synctest bubbles because the race runtime itself occasionally aborts after thousands of bubbles (driver re-runs a part on that signature)."),
    "C03": dict(cat="exploration", ref="5 (C03), 2 (V, R)",
                technique="offline history checker (conservation/size oracle) over event logs recorded at the API boundary of the real join/unite disciplines, driven by generated producer/consumer scripts on the synctest fake clock and on the real clock",
                text="Thousands of generated executions of the real v1 join, v2 join and unite (timeouts firing at arbitrary points, slow/retaining consumers, all slice-length classes) are each fully judged after the output closed: concatenation equality, no empty slice, size bounds. Held = no witness among the executions counted in the evidence.",
                note=V + "; elements are unique integers (re-sent slices are compared positionally)."),
    "C04": dict(cat="exploration", ref="5 (C04), 2 (V, R)",
                technique="offline timing-trace checker: receive timestamps of the real limit discipline against the cumulative and sliding-window rate bounds, exact on the synctest fake clock, cumulative bound also on the real clock",
                text="Generated rates/arrival patterns/consumer speeds; on the fake clock computation takes zero time so receive instant = send instant for a ready consumer and both bounds are decided exactly; on the real clock only the load-robust cumulative bound is decided.",
                note=V + "; with a slow consumer only the cumulative bound is asserted."),
    "C08": dict(cat="exploration", ref="5 (C08), 2 (V, R)",
                technique="race-detector build + ownership monitors: snapshots of s[:cap(s)] at delivery re-checked while consumers retain/poison slices, backing-array disjointness, non-blocking probes of Output() between delivery and release, v1 stop/cancel injected before release",
                text="Real disciplines run under -race with consumers that keep, re-read and overwrite delivered slices while producers keep pushing and timeouts fire (fake and real clock); any modification of an owned slice, shared backing array, output before release, or race report is a witness.",
                note=V + "; the Go race detector sees only executed paths; reading s[len:cap] of an owned slice is allowed."),
    "C09": dict(cat="exploration", ref="5 (C09), 2 (V, R)",
                technique="offline history checker: slice boundaries against greedy maximality and a lower bound on the delivery time of short non-final slices (write-start / receive stamps on the conservative side)",
                text="Every generated execution is judged: without timeout all non-final slices must be maximal; with timeout a short non-final slice must not arrive earlier than Timeout after the previous delivery (exact on the fake clock with a ready consumer; with slow consumers two sound lower bounds: write-start of the previous slice's last element, and the moment the consumer made room in the output buffer for the previous slice; both also sound on the real clock).",
                note=V + "; equal-instant ties between ticks and arrivals are accepted in either order (oracles are inequalities)."),
    "C10": dict(cat="exploration", ref="5 (C10), 2 (V)",
                technique="offline timing-trace checker on the synctest fake clock: (receive - write completion of the oldest element) * d <= Timeout * (d+1) for every output slice, consumer always ready",
                text="Bounded-latency statement decided on virtual time only (no scheduling latency term): single element then silence, trickle just under the timeout, tick-aligned gaps, bursts; inaccuracy 1..100; v1/v2 join and unite. Not decided on the real clock (an upper bound on real latency depends on machine load).",
                note=V + "."),
    "C11": dict(cat="exploration", ref="5 (C11), 2 (V, R)",
                technique="offline history checker: positional containment of every input slice in exactly one output slice of the real unite discipline",
                text="Generated length sequences over {0,1,<J,=J,>J,>>J} with re-sent slice objects and timeouts firing in between; every execution judged positionally after concatenation equality was established, and by element values when the concatenation differs.",
                note=V + "."),
    "C12": dict(cat="exploration", ref="5 (C12), 2 (V, R)",
                technique="offline history + timing checker for the real limit discipline: sequence equality and closure order on both clocks, the two no-extra-throttling forms on the synctest fake clock",
                text="Element counts around 0, Q-1, Q, Q+1, kQ, kQ+-1, Quantity 1, unbuffered inputs; sequence/closure judged on every run, exact timing forms on the fake clock with a ready consumer: no pause below Quantity; up-front elements within ceil(N/Q) intervals + 1%; an element is held back only by its arrival, by order, or by the element Quantity places before it + Interval. Quantity includes 'unlimited' values around 2^63 / 2^64-1.",
                note=V + "; only the two timing forms the property states are asserted."),
    "C13": dict(cat="exploration", ref="5 (C13), 2 (P)",
                technique="reference-model monitor: real Rate.Recalculate/Optimize/Flatten executed on generated inputs, each return value judged by a math/big oracle",
                text="Runtime reference monitor over generated inputs: boundary-directed triples around floor(Interval/Quantity)=minimum, extremes, full-range PRNG and an exhaustive block [-2..40]^3; every call of the real function is judged. Held means: no counterexample among the evaluations listed in the evidence; the statement is universally quantified over three 64-bit values, which sampling cannot exhaust.",
                note="Trusts math/big and that go1.26.8 compiles the pure integer code of rate.go like the pinned toolchain."),
    "C14": dict(cat="exploration", ref="5 (C14), 2 (P)",
                technique="reference-model monitor: real v1 and v2 Fair/Rate dividers executed on generated lists/dividends/prefilled maps, judged by a big.Rat oracle and v1-vs-v2 differential comparison",
                text="Every call is judged for conservation, frame, order, Fair spread, Rate proportionality (exact rational share) and v1==v2; exhaustive over all subsets of {1..7} x dividends 0..64, sampled beyond (magnitudes to 2^20, dividends to 2^32).",
                note="Trusts math/big; float64 behaviour of go1.26.8 on amd64 equals the pinned toolchain's."),
    "C18": dict(cat="exploration", ref="5 (C18), 2 (P)",
                technique="reference-model monitor: real IsNonFatalConfig/IsSuitableConfig/PickUp* (v1+v2) executed over a grid and compared with a brute-force subset definition; constructor acceptance executed for non-fatal q",
                text="For sampled priority sets (1..6 values) and every/every-third q in 0..300 the predicates are compared with an independent brute force over all order-preserving subsets with per-member lookup; PickUp* against the first/last q of the real predicate; non-fatal q are fed to the real v2 constructor.",
                note="The dividers used by the definition are the real Fair/Rate (judged separately by C14)."),
}

PENDING_REASON = "check not built yet in this revision (work in progress; design in DESIGN.md section 5) - not claimed"


def main():
    checks = []
    for pid in IMPLEMENTED:
        c = CHECKS[pid]
        checks.append({
            "property_id": pid,
            "quick_cmd": "./check %s quick" % pid,
            "thorough_cmd": "./check %s thorough" % pid,
            "evidence_file": "/verif/evidence/%s.json" % pid,
            "replay_cmd_template": "./check %s --replay {path}" % pid,
            "engine": "mon",
            "level_claimed": {"category": c["cat"], "text": c["text"], "design_ref": "DESIGN.md section " + c["ref"]},
            "level_note": c["note"],
            "technique": c["technique"],
        })
    all_ids = ["C%02d" % i for i in range(1, 21)]
    na = [{"property_id": pid, "reason": PENDING_REASON} for pid in all_ids if pid not in IMPLEMENTED]
    m = {
        "version": 1,
        "setup_cmd": "./setup.sh",
        "hooks": {
            "guard": "verif",
            "enable": "go1.26.8 test -tags verif (no source in /repo is guarded by it: the monitors observe the public API only)",
            "baseline_off_cmd": "./tools/baseline.sh",
            "source_commits": [],
            "add_only": True,
        },
        "engines": [{
            "name": "mon", "path": "/verif/harness/mon",
            "serves_properties": IMPLEMENTED,
            "kind_free_text": "Go test binary (go1.26.8) with runtime monitors: virtual-time synctest bubbles, real-time stress under the race detector, pure-function reference oracles; driven by /verif/check",
        }],
        "checks": checks,
        "not_applicable": na,
        "notes": "Technique family: runtime monitoring and sanitizers. Every verdict is 'held on the executions listed in the evidence file' or a witness. Exit codes: 0 held, 1 violation (VIOLATION line), 2 inconclusive (INCONCLUSIVE line, never a VIOLATION). Defects found and repaired are listed in known_findings.txt (fixed: lines).",
    }
    if not na:
        m["not_applicable"] = []
    json.dump(m, open(os.path.join(VERIF, "MANIFEST.json"), "w"), indent=1)
    print("MANIFEST.json written:", len(checks), "checks,", len(na), "not applicable")


if __name__ == "__main__":
    main()
