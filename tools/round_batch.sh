#!/bin/bash
# round_batch.sh <round suffix, e.g. r3> : processes every /tmp/seed/<id><suffix>/_seed/<n> (3 at a time), logs to logs/round<suffix>/
SUF=$1; mkdir -p /verif/logs/round$SUF
declare -A CHK=( [C01]="C01 C17" [C02]="C02 C17 C07" [C03]="C03 C11" [C04]="C04 C12" [C05]="C05 C01 C06" [C06]="C06 C17 C05" [C07]="C07 C19" [C08]="C08 C03 C16" [C09]="C09 C10" [C10]="C10 C09" [C11]="C11 C03 C09" [C12]="C12 C04" [C13]="C13" [C14]="C14 C18" [C15]="C15 C19 C07" [C16]="C16 C19" [C17]="C17 C01 C02" [C18]="C18 C14 C15" [C19]="C19 C15 C08" [C20]="C20 C08" )
jobs_list=()
for d in /tmp/seed/*$SUF/_seed/*; do
  pid=$(basename $(dirname $(dirname $d))); pid=${pid%$SUF}
  [ -n "$ONLY" ] && ! echo " $ONLY " | grep -q " $pid " && continue
  [ -f $d/patch.diff ] && [ -f $d/meta.json ] && jobs_list+=("$d")
done
run_one() {
  d=$1; slot=$2
  id=$(basename $(dirname $(dirname $d))); id=${id%$SUF}; n=$(basename $d)
  first=$(grep '^+++ b/' "$d/patch.diff" | head -1 | sed 's#+++ b/##')
  pkg=$(dirname "$first")
  demo=$(ls "$d" | grep '_test.go$' | head -1)
  dp=$(grep -m1 '^package' "$d/$demo" | awk '{print $2}' | sed 's/_test$//')
  # the demo's package decides the directory when it differs from the changed file's
  case "$dp" in simple) case "$pkg" in v2/*) pkg=v2/priority/simple;; esac;; unite) pkg=v2/join/unite;; esac
  MUT_ID=s$slot SEED_PKG=$pkg /verif/tools/process_seed.sh $d ${CHK[$id]} > /verif/logs/round$SUF/$id-$n.log 2>&1
}
i=0
for d in "${jobs_list[@]}"; do
  run_one $d $((i%3)) &
  i=$((i+1))
  if [ $((i%3)) -eq 0 ]; then wait; fi
done
wait
echo batch done
