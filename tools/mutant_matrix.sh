#!/bin/bash
# Runs every mutant (my own in mutants/, the sub-agents' in seeded/) against the checks that own the
# touched behaviour and writes one line per (mutant, check): caught / silent / inconclusive.
# usage: MUT_ID=2 tools/mutant_matrix.sh [own|seeded] > notes/mutant-matrix.txt      (takes about an hour each)
cd /verif
checks_for() {
  case "$1" in
    join-*|unite-*) echo "C03 C08 C09 C10 C11 C16 C19";;
    limit-*) echo "C04 C12 C20";;
    simple-*) echo "C07 C19";;
    prio-v1-*) echo "C01 C02 C05 C06 C07 C15 C16 C17 C20";;
    prio-*) echo "C01 C02 C05 C06 C07 C15 C20";;
    *) echo "";;
  esac
}
[ "$1" = seeded ] || for f in mutants/*.diff; do
  n=$(basename $f .diff)
  for c in $(checks_for $n); do
    out=$(VERIF_SEED=${MATRIX_SEED:-1} LINES_SHOWN=1 tools/mutant.sh $f $c 2>&1 | head -1)
    rc=$(echo "$out" | sed -n 's/.* rc=\([0-9]*\) .*/\1/p')
    v=silent; [ "$rc" = 1 ] && v=CAUGHT; [ "$rc" = 2 ] && v=inconclusive
    echo "own    $n $c $v"
  done
done
[ "$1" = own ] || for d in seeded/*/; do
  n=$(basename $d)
  own=${n%-*}
  extra=$(python3 -c "import json;print(' '.join(c for c in json.load(open('$d/meta.json')).get('caught_by_checks',[]) if c!='$own'))")
  for c in $own $extra; do
    out=$(VERIF_SEED=${MATRIX_SEED:-1} LINES_SHOWN=1 tools/mutant.sh $d/patch.diff $c 2>&1 | head -1)
    rc=$(echo "$out" | sed -n 's/.* rc=\([0-9]*\) .*/\1/p')
    v=silent; [ "$rc" = 1 ] && v=CAUGHT; [ "$rc" = 2 ] && v=inconclusive
    echo "seeded $n $c $v"
  done
done
