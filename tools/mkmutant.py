#!/usr/bin/env python3
"""Authoring helper: mkmutant.py <name> <file-relative-to-repo> <<< 'OLD\n=====\nNEW'
Applies the textual replacement (must match exactly once) in the scratch worktree /tmp/mw,
checks that it compiles, writes /verif/mutants/<name>.diff and restores the worktree."""
import subprocess, sys, os
name, rel = sys.argv[1], sys.argv[2]
old, new = sys.stdin.read().split("\n=====\n")
new = new.rstrip("\n") if not new.endswith("\n\n") else new
W = "/tmp/mw"
p = os.path.join(W, rel)
s = open(p).read()
old = old.strip("\n"); new = new.strip("\n")
if s.count(old) != 1:
    print("pattern occurs", s.count(old), "times"); sys.exit(1)
open(p, "w").write(s.replace(old, new))
env = dict(os.environ, GOFLAGS="-mod=mod", GOPROXY="off", GOSUMDB="off", GOTOOLCHAIN="local")
mod = "v2" if rel.startswith("v2/") else "."
r = subprocess.run(["go", "build", "./..."], cwd=os.path.join(W, mod), env=env, capture_output=True, text=True)
d = subprocess.run(["git", "diff"], cwd=W, capture_output=True, text=True).stdout
subprocess.run(["git", "checkout", "--", "."], cwd=W)
if r.returncode != 0:
    print("does not compile:", r.stderr[:500]); sys.exit(1)
open("/verif/mutants/%s.diff" % name, "w").write(d)
print("wrote", name)
