#!/bin/bash
# Applies a patch to /repo's working tree, runs the given checks (quick tier unless TIER is set),
# and restores /repo no matter what. usage: tools/mutant.sh <patch.diff> C03 C09 ...
# Prints one line per check: <patch> <id> rc=<exit code> and the VIOLATION lines.
P=$(readlink -f "$1"); shift
cd /repo || exit 2
mkdir -p /verif/logs/mut-evidence
if [ -n "$(git status --porcelain)" ]; then echo "/repo not clean"; exit 2; fi
trap 'git -C /repo checkout -- . >/dev/null 2>&1' EXIT
git apply "$P" || { echo "patch does not apply: $P"; exit 2; }
for id in "$@"; do
  out=$(cd /verif && VERIF_EVIDENCE_DIR=/verif/logs/mut-evidence ./check "$id" "${TIER:-quick}" 2>&1); rc=$?
  echo "$(basename "$P") $id rc=$rc $(echo "$out" | grep -c '^VIOLATION') violation lines"
  echo "$out" | grep -E '^(VIOLATION|INCONCLUSIVE|  detail)' | head -${LINES_SHOWN:-3} | cut -c1-300
done
