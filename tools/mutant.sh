#!/bin/bash
# Applies a patch to a scratch worktree of /repo (/tmp/mrepo) and runs the given checks against it
# from a scratch copy of /verif (/tmp/vx, whose harness go.mod points at /tmp/mrepo), so that /repo
# itself and the evidence under /verif are never touched and sweeps on /repo can run meanwhile.
# usage: tools/mutant.sh <patch.diff> C03 C09 ...      (TIER=thorough for the thorough tier)
# With MUTANT_INPLACE=1 the patch is applied to /repo itself (restored afterwards) and /verif/check is used.
# Prints one line per check: <patch> <id> rc=<exit code> and the VIOLATION / INCONCLUSIVE lines.
P=$(readlink -f "$1"); shift
if [ -n "$MUTANT_INPLACE" ]; then
  R=/repo; V=/verif
  cd $R || exit 2
  if [ -n "$(git status --porcelain)" ]; then echo "/repo not clean"; exit 2; fi
  trap 'git -C /repo checkout -- . >/dev/null 2>&1' EXIT
else
  R=/tmp/mrepo$MUT_ID; V=/tmp/vx$MUT_ID
  if [ ! -d $R ]; then git -C /repo worktree add -q --detach $R HEAD || exit 2; fi
  git -C $R checkout -q --detach "$(git -C /repo rev-parse HEAD)" && git -C $R checkout -- . && git -C $R clean -fdq
  mkdir -p $V
  rsync -a --delete --exclude .git --exclude logs --exclude replays --exclude .bin --exclude evidence /verif/ $V/
  sed -i "s#=> /repo/v2#=> $R/v2#; s#=> /repo\$#=> $R#" $V/harness/go.mod
  trap "git -C $R checkout -- . >/dev/null 2>&1; git -C $R clean -fdq" EXIT
  cd $R || exit 2
fi
git apply "$P" || { echo "patch does not apply: $P"; exit 2; }
mkdir -p $V/logs/mut-evidence
for id in "$@"; do
  out=$(cd $V && VERIF_EVIDENCE_DIR=$V/logs/mut-evidence ./check "$id" "${TIER:-quick}" 2>&1); rc=$?
  echo "$(basename "$(dirname "$P")")/$(basename "$P") $id rc=$rc $(echo "$out" | grep -c '^VIOLATION') violation lines"
  echo "$out" | grep -E '^(VIOLATION|INCONCLUSIVE|  detail)' | head -${LINES_SHOWN:-3} | cut -c1-330
done
