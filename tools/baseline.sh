#!/bin/bash
# Runs the repository's pinned test suite (both modules) with the verif guard OFF and prints a pass/fail summary.
# usage: tools/baseline.sh [repo-dir]
export GOFLAGS=-mod=mod GOPROXY=off GOSUMDB=off GOTOOLCHAIN=local
R=${1:-/repo}
rc=0
for m in . v2; do
  (cd "$R/$m" && go test -mod=mod -json -vet=off -count=1 -timeout 25m ./... ) > /tmp/baseline.$$.json 2>&1 || rc=1
  python3 - /tmp/baseline.$$.json "$m" <<'PY'
import json,sys
p=f=0; failed=[]
for l in open(sys.argv[1]):
    try: e=json.loads(l)
    except Exception: continue
    if e.get('Test') and e.get('Action')=='pass': p+=1
    if e.get('Test') and e.get('Action')=='fail': f+=1; failed.append(e['Package']+'::'+e['Test'])
print(f"module {sys.argv[2]}: pass={p} fail={f}", *failed)
PY
  rm -f /tmp/baseline.$$.json
done
exit $rc
