#!/usr/bin/env python3
"""Prints the prompt given to a fresh sub-agent that seeds a property-breaking change (nothing from /verif is disclosed)."""
import json, sys, os
pid = sys.argv[1]
n = sys.argv[2] if len(sys.argv) > 2 else "1"
for line in open('/verif/properties.jsonl'):
    p = json.loads(line)
    if p['id'] == pid:
        break
wt = "/tmp/seed/%s%s" % (pid, "" if os.environ.get("SEED_ROUND", "1") == "1" else "r" + os.environ["SEED_ROUND"])
import os
prev = ""
import glob, os
metas = sorted(glob.glob('/verif/seeded/%s-*/meta.json' % pid))
if metas and os.environ.get("SEED_ROUND", "1") != "1":
    lines = []
    for m in metas:
        d = json.load(open(m))
        lines.append("  - (%s) %s" % (", ".join(d.get("files_changed", [])) if isinstance(d.get("files_changed"), list) else d.get("files_changed"), d["summary"]))
    prev = "\nA previous round already produced the changes listed below for this property. Come up with DIFFERENT ones: a different mechanism, a different code site (prefer another module version / discipline variant / function than those already used, if the property covers several) or a different triggering condition. Do not resubmit variations of these:\n" + "\n".join(lines) + "\n"
print(f"""You are helping to evaluate a test/verification setup for the Go library akramarenkov/cqos (channel "disciplines": priority-weighted distribution of items to handlers, batching join/unite with timeouts, a rate limiter). It has two Go modules: the root module (v1: packages priority, join) and ./v2 (packages priority, priority/simple, priority/divider, priority/utils, join, join/unite, limit).

You have your own scratch git worktree of the repository at {wt} . Work ONLY inside that directory (do not touch /repo, /verif or any other worktree, and do not read anything under /verif).

Property that the library is supposed to satisfy:

  Title: {p['title']}
  Statement: {p['statement']}
  Quantified over: {p['quantifier']['text']}

{prev}
Task: make {n} DIFFERENT small change(s) to the library's non-test source code (each one independent, each starting from the pristine worktree) that BREAKS this property, while
  (a) the code still compiles,
  (b) the repository's existing test suite still passes, unedited (run it: see the commands below; it takes 1-2 minutes per module, some tests are timing based so re-run once if a timing test flakes and make sure your change is not the cause),
  (c) the breakage is NOT something ordinary use would expose at once: it should need something specific to manifest - a particular interleaving or timing, a stop/fault at a particular point, a multi-step sequence of operations, an unusual input or configuration, or two cooperating code sites that each look harmless alone. Make it look like a plausible bug a developer could introduce (an off-by-one, a wrong comparison, a missed case, a reordered pair of statements, a forgotten guard), not an `if magic == 12345` trapdoor.
  (d) you provide a demonstration: a Go test (preferred; put it in a new _test.go file in the affected package) or a small program that FAILS (deterministically or at least in most runs) with your change and PASSES on the pristine code. Verify both directions yourself.

Environment (no network): every shell call needs
  export GOFLAGS=-mod=mod GOPROXY=off GOSUMDB=off GOTOOLCHAIN=local
The default `go` is 1.23.5. Existing suite: `cd {wt} && go test -mod=mod -vet=off -count=1 -timeout 25m ./...` and `cd {wt}/v2 && go test -mod=mod -vet=off -count=1 -timeout 25m ./...`. You can restrict to the packages you touched while iterating, but run the full suite of the touched module once at the end.

Deliverables, for change number k (k = 1..{n}), in the directory {wt}/_seed/k/ :
  - patch.diff : `git diff` of the library change only (no test files), applicable with `git apply` at the repository root;
  - the demonstration file(s), plus a file DEMO.md saying exactly where to put them and the command to run them, and what output shows the failure;
  - meta.json : {{"property": "{pid}", "summary": "...one sentence what the change does...", "needs_to_manifest": "...what specific condition is needed...", "files_changed": [...], "suite_passed": true/false, "demo_fails_with_change": true/false, "demo_passes_without_change": true/false}}
Leave the worktree itself pristine at the end (`git checkout -- . && git clean -fd -e _seed`), only the _seed directory remains.

Report back briefly: for each change, the one-sentence summary and the three booleans.""")
