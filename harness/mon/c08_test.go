package mon

// C08 — slice ownership of join / unite, run in a -race build: retained copy-mode slices are
// never modified and share no memory; no-copy slices are untouched and nothing else is
// produced between delivery and release; v1: a slice delivered before a stop/cancel that
// preceded its release is never touched again.

import (
	"math/rand/v2"
	"testing"
)

func TestC08(t *testing.T) {
	r := newRun(t, "C08", "exploration")
	defer r.Finish(t)
	r.Rule = "two parts: A = plain build, fake-clock families; B = race-detector build, real-clock families plus a small fake-clock block; scenarios for {v1 join, v2 join, unite} on the fake clock and on the real clock: (copy) the consumer keeps every slice, snapshots s[:cap(s)] at delivery, later overwrites whole capacities with poison while the producer keeps pushing and timeouts fire - un-poisoned snapshots must be intact, backing arrays pairwise disjoint and (unite) disjoint from every input slice incl. re-sent slice objects; (no-copy) the slice is re-read just before release-start and must equal its snapshot, Output() must be empty (non-blocking receive at a quiescent point) while held for 0..3 Timeouts; (v1) Stop/cancel injected between delivery and release with a busy input, snapshot must be intact after termination. Any race report counts. non-trivial = copy: >= 2 retained slices of which >= 1 poisoned before later deliveries; no-copy: >= 2 slices held; stop: injection landed before the release; distinct by scenario fingerprint"
	r.Rule += " | also: Stop() from another goroutine while the consumer keeps reading (copy mode); no-copy stops at arbitrary points with the check that every v1 slice is a run of consecutive input elements; no input slice is ever written to (whole capacity)"
	r.Assumptions = []string{"testing/synctest fake clock of go1.26.8", "the Go race detector (reports only races on executed paths)", "reading s[len:cap] of a slice the consumer owns is allowed"}
	r.Floor = 20
	if replayJoin(t, r) {
		return
	}
	discs := []string{"v1join", "v2join", "unite", "unite"}
	body := func(g joinGen) func(t *testing.T, idx int, rng *rand.Rand) {
		return func(t *testing.T, idx int, rng *rand.Rand) {
			res := r.joinCase(t, genJoinScenario(rng, g), rng)
			if res.tr == nil || res.tr.Rejected != "" {
				return
			}
			r.Count("slices_retained_copy_mode", int64(res.st.Retained))
			r.Count("slices_poisoned", int64(res.st.Poisoned))
			r.Count("slices_held_no_copy", int64(res.st.Holds))
			nt := false
			switch {
			case res.sc.StopKind != "":
				if res.sc.StopBeforeRelease && len(res.tr.Out) > res.sc.StopAfter {
					nt = true
					r.Count("stops_before_release", 1)
				}
			case !res.sc.NoCopy:
				nt = res.st.Retained >= 2 && res.st.Poisoned >= 1
			default:
				nt = res.st.Holds >= 2
			}
			if nt {
				r.NonTrivial(jsonString(res.sc))
				if r.WantSample() {
					r.Sample(sampleOf(res))
				}
			}
		}
	}
	// Part A (plain build): the fake-clock families decide ownership with the snapshot /
	// disjointness / probe oracles. Part B (race build): the real-clock families plus a small
	// fake-clock block add the race detector. The race build is kept away from thousands of
	// bubbles: on go1.26.8 the race runtime itself aborts now and then after very many
	// synctest bubbles (ThreadSanitizer CHECK failure / SIGSEGV in runtime timer code).
	part := r.Cfg.Part
	if part == "" || part == "A" {
		r.Parallel(t, "virtual-copy", r.Cfg.pick(4000, 80000), body(joinGen{Discs: discs, NoCopy: -1, Retain: true}))
		r.Parallel(t, "virtual-nocopy", r.Cfg.pick(4000, 80000), body(joinGen{Discs: discs, NoCopy: 1, Retain: true}))
		r.Parallel(t, "virtual-v1-stop-before-release", r.Cfg.pick(3000, 60000), body(joinGen{Discs: []string{"v1join"}, NoCopy: 1, Stop: 2}))
		// copy mode under Stop(): what is delivered around the stop is the consumer's like everything else
		r.Parallel(t, "virtual-v1-stop-copy", r.Cfg.pick(3000, 50000), body(joinGen{Discs: []string{"v1join"}, NoCopy: -1, Retain: true, Stop: 1}))
		// ... and at any other point: e.g. while the next slice sits, sent but unread, in the output buffer
		r.Parallel(t, "virtual-v1-stop-anywhere", r.Cfg.pick(4000, 60000), body(joinGen{Discs: []string{"v1join"}, NoCopy: 1, Stop: 1}))
	}
	if part == "" || part == "B" {
		r.Parallel(t, "race-virtual-mixed", r.Cfg.pick(240, 400), body(joinGen{Discs: discs, Retain: true, Stop: 1}))
		r.Parallel(t, "race-real-copy", r.Cfg.pick(300, 5000), body(joinGen{Discs: discs, NoCopy: -1, Retain: true, Real: true}))
		r.Parallel(t, "race-real-nocopy", r.Cfg.pick(300, 5000), body(joinGen{Discs: discs, NoCopy: 1, Retain: true, Real: true}))
		r.Parallel(t, "race-real-v1-stop-before-release", r.Cfg.pick(200, 4000), body(joinGen{Discs: []string{"v1join"}, NoCopy: 1, Stop: 2, Real: true}))
	}
}
