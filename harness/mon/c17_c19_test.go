package mon

// C17 (v1 AddInput / RemoveInput) and C19 (no goroutine left) on the fake clock, C19 also on
// the real clock for join / limit.

import (
	"math/rand/v2"
	"testing"
)

func TestC17(t *testing.T) {
	r := newRun(t, "C17", "exploration")
	defer r.Finish(t)
	r.Rule = "v1 priority discipline; generated scripts interleave AddInput of a new priority, replacement of a registered channel, RemoveInput and re-adding with a fresh channel (one priority per channel object, control calls issued from their own goroutines, one at a time) with writes, drains without release, release groups and sleeps; H is chosen so that every subset of the priorities that can be registered is non-fatal. Oracle: every item is tagged with the priority its channel was registered under; once RemoveInput / a replacing AddInput has returned, the number of items taken out of the old channel (completed writes minus len) is frozen at a quiescent point and no later delivery may exceed it; per channel, deliveries are exactly the first taken items in order; held <= H throughout (C01's oracle) also while items of a removed priority are in flight; after closing what is left, GracefulStop returns and the never-early conditions of C07 hold; the divider is only called with configured priorities (C15's contract monitor); a real-clock block repeats add / replace / remove from a control goroutine racing with H handler goroutines and live producers (tags, exactly-once, capacity, and no delivery from a channel beyond what had been taken when its removal returned, +1 for a send in progress). non-trivial = scenario with >= 2 control calls of which >= 1 removal or replacement happened while items of that priority were in flight or buffered; distinct by scenario fingerprint"
	r.Rule += " | also: removal of unregistered / drained / last inputs; AddInput of the same channel, of the original channel object after a removal, of a nil channel; control calls after GracefulStop() was requested; a priority whose share appears when another one is removed"
	r.Assumptions = []string{prioAssume, "control calls block while the scheduler waits for feedback: the harness keeps releasing held items one by one until the pending call has returned"}
	r.Floor = 20
	if replayPrio(t, r) {
		return
	}
	r.Parallel(t, "v1-add-remove", r.Cfg.pick(5000, 60000), func(t *testing.T, idx int, rng *rand.Rand) {
		c := r.prioCase(t, genPrioScenario(rng, prioGen{Vers: []string{"v1"}, Dividers: allDividers, Mode: "addrm"}))
		if c.res == nil {
			return
		}
		if c.res.OldReAdds > 0 {
			r.Count("scenarios_re_adding_the_original_channel_object", 1)
		}
		r.Count("control_calls", int64(c.res.CtlOps))
		r.Count("removals_or_replacements_with_items_taken", int64(c.res.RemovedWithData))
		if c.res.CtlOps >= 2 && c.res.RemovedWithData >= 1 && c.res.Terminated {
			r.NonTrivial(jsonString(c.sc))
			if r.WantSample() {
				r.Sample(prioSample(c))
			}
		}
	})
	// real clock: control calls from their own goroutine racing with H handlers and live producers;
	// tags, exactly-once, capacity, and (load-robust) nothing read from a channel after its
	// removal / replacement returned beyond what had been taken then (+1 for a send in progress)
	r.Parallel(t, "real-v1-control", r.Cfg.pick(300, 8000), func(t *testing.T, idx int, rng *rand.Rand) {
		sc := genPrioRealScenario(rng, []string{"v1"}, true)
		res := r.prioRealCase(t, sc)
		if res.Rejected == "" && res.Stuck == "" && res.CtlDone >= 1 {
			r.NonTrivial(jsonString(sc))
		}
	})
	// a priority has no share until another one is removed: once RemoveInput has returned the
	// shares are those of the remaining set and everything written keeps being delivered
	r.Parallel(t, "v1-share-appears-after-remove", r.Cfg.pick(600, 8000), func(t *testing.T, idx int, rng *rand.Rand) {
		c := r.prioCase(t, genPrioScenario(rng, prioGen{Vers: []string{"v1"}, Dividers: []string{"fair", "rate", "rate", "hashw", "toprem"}, Mode: "starvedrm"}))
		if c.res != nil && c.res.Unstarved {
			r.Count("share_appears_after_remove.scenarios", 1)
			if c.res.Terminated && c.res.TermWay == "drained" {
				r.Count("share_appears_after_remove.delivered_to_the_end", 1)
				r.NonTrivial(jsonString(c.sc))
			}
		}
	})
}

func TestC19(t *testing.T) {
	r := newRun(t, "C19", "exploration")
	defer r.Finish(t)
	r.CensusEvery = 1
	r.Rule = "every discipline of both versions is driven to termination in every way: input closure (v2 priority, v2 simple, join, unite, limit), GracefulStop (v1 priority, v1 Simple), Stop / cancel / Stop-after-GracefulStop at generated points (v1 priority, v1 Simple, v1 join), error termination after an injected divider fault; fake clock: after termination the stepper lets everything run to a blocked state, lets 1us virtual pass and takes a census of the bubble - any goroutine whose 'created by' line names a function of the library is a leak (harness goroutines that merely are inside Release() are not counted); a synctest report of blocked goroutines left behind is cross-checked. Real clock (priority variants with H handler goroutines, join, unite, limit): after every batch a process-wide census with a 10s grace period. non-trivial = a scenario that terminated and was censused; the evidence tabulates censuses per (discipline, way of termination); distinct by scenario fingerprint"
	r.Rule += " | also: Err() never read after a divider fault; census right at the completion of a stop (Handle may need 3us to return); goroutines of the discipline found blocked at the instant any Stop() / GracefulStop() call returns; census at a closure that comes while items are unreleased"
	r.Assumptions = []string{prioAssume, "runtime.Stack lists every goroutine with its creator"}
	r.Floor = 30
	if replayPrio(t, r) {
		return
	}
	prio := func(g prioGen, faults bool) func(t *testing.T, idx int, rng *rand.Rand) {
		return func(t *testing.T, idx int, rng *rand.Rand) {
			sc := genPrioScenario(rng, g)
			if faults {
				kinds := []string{"plus1", "double", "minus1", "outside"}
				sc.Fault = &DivFault{At: 1 + rng.IntN(30), Kind: kinds[rng.IntN(len(kinds))]}
			}
			c := r.prioCase(t, sc)
			if c.res != nil && c.res.CensusTaken {
				r.Count("census."+sc.Ver+"."+c.res.TermWay, 1)
				if c.res.ErrIgnored {
					r.Count("census.v2.divider-fault.err-never-read", 1)
				}
				r.NonTrivial(jsonString(sc))
				if r.WantSample() {
					r.Sample(map[string]any{"scenario": sc, "terminated": c.res.TermWay, "leaked": c.res.Leaked})
				}
			}
		}
	}
	r.Parallel(t, "priority-drained", r.Cfg.pick(700, 20000), prio(prioGen{Vers: allVers, Dividers: allDividers, Mode: "terminate"}, false))
	r.Parallel(t, "priority-stop", r.Cfg.pick(700, 20000), prio(prioGen{Vers: []string{"v1", "v1s"}, Dividers: allDividers, Mode: "stop"}, false))
	r.Parallel(t, "priority-divider-fault", r.Cfg.pick(500, 15000), prio(prioGen{Vers: allVers, Dividers: []string{"fair", "rate", "hashw"}, Mode: "general", MaxH: 24}, true))
	r.Parallel(t, "priority-v1-add-remove", r.Cfg.pick(300, 8000), prio(prioGen{Vers: []string{"v1"}, Dividers: allDividers, Mode: "addrm"}, false))
	join := func(g joinGen) func(t *testing.T, idx int, rng *rand.Rand) {
		return func(t *testing.T, idx int, rng *rand.Rand) {
			res := r.joinCase(t, genJoinScenario(rng, g), rng)
			if res.censused || (res.sc.Real && res.tr != nil && res.tr.Closed) {
				r.NonTrivial(jsonString(res.sc))
			}
		}
	}
	r.Parallel(t, "join-virtual", r.Cfg.pick(3000, 80000), join(joinGen{Discs: []string{"v1join", "v2join", "unite"}, Retain: true}))
	r.Parallel(t, "join-v1-stop", r.Cfg.pick(1500, 40000), join(joinGen{Discs: []string{"v1join"}, Stop: 1}))
	r.Parallel(t, "limit-virtual", r.Cfg.pick(2000, 60000), func(t *testing.T, idx int, rng *rand.Rand) {
		res := r.limitCase(t, genLimitScenario(rng, limitGen{}))
		if res.censused {
			r.NonTrivial(jsonString(res.sc))
		}
	})
	r.Parallel(t, "priority-real", r.Cfg.pick(200, 4000), func(t *testing.T, idx int, rng *rand.Rand) {
		sc := genPrioRealScenario(rng, allVers, false)
		res := r.prioRealCase(t, sc)
		if res.Rejected == "" && res.Stuck == "" {
			r.Count("census.real."+sc.Ver, 1)
			r.NonTrivial(jsonString(sc))
		}
	})
	r.processCensus("priority-real")
	r.Parallel(t, "join-real", r.Cfg.pick(200, 3000), join(joinGen{Discs: []string{"v1join", "v2join", "unite"}, Real: true, Stop: 1}))
	r.processCensus("join-real")
	r.Parallel(t, "limit-real", r.Cfg.pick(100, 2000), func(t *testing.T, idx int, rng *rand.Rand) {
		res := r.limitCase(t, genLimitScenario(rng, limitGen{Real: true}))
		if res.tr != nil && res.tr.Closed {
			r.NonTrivial(jsonString(res.sc))
		}
	})
	r.processCensus("limit-real")
}
