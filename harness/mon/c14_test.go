package mon

// C14 — Fair and Rate dividers (v1 and v2): conservation, frame, order and proportionality,
// judged on every call by an oracle written from the property (exact shares in big.Rat).

import (
	"fmt"
	"maps"
	"math/big"
	"math/rand/v2"
	"reflect"
	"sort"
	"testing"

	v1prio "github.com/akramarenkov/cqos/priority"
	"github.com/akramarenkov/cqos/v2/priority/divider"
)

type divCase struct {
	Kind     string         `json:"kind"` // fair | rate
	Prios    []uint         `json:"priorities"`
	Dividend uint           `json:"dividend"`
	Pre      map[uint]uint  `json:"prefilled"`
	Result   map[uint]uint  `json:"result,omitempty"`
	Extra    map[string]any `json:"extra,omitempty"`
}

// judgeDivider runs v2 and v1 of the divider on (prios, dividend, pre) and applies the oracle.
func judgeDivider(c divCase) (msg string, maxDevOverN float64) {
	var v2f divider.Divider
	var v1f v1prio.Divider
	if c.Kind == "fair" {
		v2f, v1f = divider.Fair, v1prio.FairDivider
	} else {
		v2f, v1f = divider.Rate, v1prio.RateDivider
	}
	priosA := append([]uint(nil), c.Prios...)
	priosB := append([]uint(nil), c.Prios...)
	d2 := maps.Clone(c.Pre)
	if d2 == nil {
		d2 = map[uint]uint{}
	}
	v2f(priosA, c.Dividend, d2)
	var d1in map[uint]uint
	if c.Pre != nil {
		d1in = maps.Clone(c.Pre)
	}
	d1 := v1f(priosB, c.Dividend, d1in)
	if c.Pre != nil && d1 != nil && reflect.ValueOf(d1).Pointer() != reflect.ValueOf(d1in).Pointer() {
		return "v1 divider returned a different map than the non-nil distribution it was given", 0
	}
	if !reflect.DeepEqual(priosA, c.Prios) || !reflect.DeepEqual(priosB, c.Prios) {
		return "divider modified the priorities list", 0
	}
	// v1 == v2 (an absent entry and a zero entry are different maps: compare as delivered)
	if !reflect.DeepEqual(d1, d2) {
		return fmt.Sprintf("v1 and v2 distributions differ: v1=%v v2=%v", d1, d2), 0
	}
	c.Result = d2

	listed := map[uint]bool{}
	for _, p := range c.Prios {
		listed[p] = true
	}
	// frame: nothing outside the listed priorities is created or changed
	for k, v := range d2 {
		if listed[k] {
			continue
		}
		pv, ok := c.Pre[k]
		if !ok {
			return fmt.Sprintf("entry %d created although not listed", k), 0
		}
		if pv != v {
			return fmt.Sprintf("entry %d (not listed) changed from %d to %d", k, pv, v), 0
		}
	}
	for k := range c.Pre {
		if _, ok := d2[k]; !ok {
			return fmt.Sprintf("entry %d deleted", k), 0
		}
	}
	// conservation
	inc := make([]uint, len(c.Prios))
	var total uint
	for i, p := range c.Prios {
		if d2[p] < c.Pre[p] {
			return fmt.Sprintf("entry %d decreased from %d to %d", p, c.Pre[p], d2[p]), 0
		}
		inc[i] = d2[p] - c.Pre[p]
		total += inc[i]
	}
	if total != c.Dividend {
		return fmt.Sprintf("added total %d differs from dividend %d (increments %v)", total, c.Dividend, inc), 0
	}
	// order
	for i := 1; i < len(inc); i++ {
		if inc[i] > inc[i-1] {
			return fmt.Sprintf("increments %v are not non-increasing along the list %v", inc, c.Prios), 0
		}
	}
	n := len(c.Prios)
	if c.Kind == "fair" {
		if inc[0]-inc[n-1] > 1 {
			return fmt.Sprintf("fair increments %v differ by more than one", inc), 0
		}
		return "", 0
	}
	// rate: each increment within n/2 of the exact proportional share
	sum := new(big.Int)
	for _, p := range c.Prios {
		sum.Add(sum, new(big.Int).SetUint64(uint64(p)))
	}
	bound := new(big.Rat).Add(big.NewRat(int64(n), 2), big.NewRat(1, 1<<20))
	maxDev := 0.0
	for i, p := range c.Prios {
		exact := new(big.Rat).SetFrac(new(big.Int).Mul(new(big.Int).SetUint64(uint64(c.Dividend)), new(big.Int).SetUint64(uint64(p))), sum)
		dev := new(big.Rat).Sub(new(big.Rat).SetInt(new(big.Int).SetUint64(uint64(inc[i]))), exact)
		dev.Abs(dev)
		if dev.Cmp(bound) > 0 {
			f, _ := dev.Float64()
			return fmt.Sprintf("rate increment %d of priority %d deviates %.3f from the exact share (bound n/2=%.1f); increments %v for %v / %d", inc[i], p, f, float64(n)/2, inc, c.Prios, c.Dividend), 0
		}
		f, _ := dev.Float64()
		if f/float64(n) > maxDev {
			maxDev = f / float64(n)
		}
	}
	return "", maxDev
}

func genPrioList(rng *rand.Rand, maxN int, maxMag uint) []uint {
	n := 1 + rng.IntN(maxN)
	if uint(n) > maxMag {
		n = int(maxMag)
	}
	set := map[uint]bool{}
	for len(set) < n {
		var p uint
		switch rng.IntN(5) {
		case 0:
			p = uint(1 + rng.IntN(8))
		case 1:
			p = uint(1 + rng.IntN(100))
		case 2:
			p = uint(1) << rng.IntN(21)
		case 3:
			p = uint(1 + rng.UintN(uint(maxMag)))
		default:
			p = uint(1 + rng.IntN(1000))
		}
		if p > maxMag {
			p = maxMag
		}
		if p == 0 {
			p = 1
		}
		set[p] = true
	}
	out := make([]uint, 0, n)
	for p := range set {
		out = append(out, p)
	}
	sort.Slice(out, func(i, j int) bool { return out[i] > out[j] })
	if len(out) >= 2 && rng.IntN(8) == 0 {
		out[len(out)-1] = 0 // priority 0 is a priority like any other (its share is nothing); the sum stays positive
	}
	return out
}

func genDivCase(rng *rand.Rand) divCase {
	c := divCase{Kind: "fair"}
	if rng.IntN(3) != 0 {
		c.Kind = "rate"
	}
	c.Prios = genPrioList(rng, 8, 1<<20)
	switch rng.IntN(6) {
	case 0:
		c.Dividend = uint(rng.IntN(20))
	case 1:
		c.Dividend = uint(rng.IntN(700))
	case 2:
		c.Dividend = uint(rng.Uint64N(1 << 32))
	case 3:
		c.Dividend = uint(1) << rng.IntN(33)
	case 4: // around multiples of the priority sum, where rounding decides
		var s uint
		for _, p := range c.Prios {
			s += p
		}
		c.Dividend = (s*uint(rng.IntN(50)) + uint(rng.IntN(5))) % (1 << 32)
	default:
		c.Dividend = uint(len(c.Prios)*rng.IntN(100) + rng.IntN(3))
	}
	if rng.IntN(2) == 0 {
		c.Pre = map[uint]uint{}
		for _, p := range c.Prios {
			if rng.IntN(3) != 0 {
				c.Pre[p] = uint(rng.IntN(1000))
			}
		}
		for k := rng.IntN(3); k > 0; k-- { // foreign keys
			c.Pre[uint(1<<21)+uint(rng.IntN(100))] = uint(rng.IntN(1000))
		}
	}
	return c
}

func TestC14(t *testing.T) {
	r := newRun(t, "C14", "exploration")
	defer r.Finish(t)
	r.Rule = "cases = (Fair|Rate, 1..8 distinct priorities sorted descending with magnitudes up to 2^20, dividend 0..2^32, nil / empty / prefilled distribution with foreign keys); the real v2 and v1 dividers run on each and the result is judged: total added = dividend, frame, non-increasing increments, Fair spread <= 1, Rate within n/2 of the exact big.Rat share, v1 == v2 (DeepEqual); plus the exhaustive block all subsets of {1..7} x dividends 0..64 x {nil, prefilled}; non-trivial = dividend > 0 and >= 2 priorities; distinct by (kind, list, dividend, prefilled) (capped at 400000)"
	r.Assumptions = []string{"math/big arithmetic is correct", "float64 behaviour of go1.26.8 on amd64 equals that of the pinned toolchain (IEEE-754, no fused operations in math.Round(base*priority) on amd64)"}
	r.Floor = 1000

	var maxDevMu = make(chan struct{}, 1)
	maxDev := 0.0
	check := func(c divCase) {
		r.Eval(1)
		msg, dev := judgeDivider(c)
		if c.Dividend > 0 && len(c.Prios) >= 2 {
			r.NonTrivial(fmt.Sprint(c.Kind, c.Prios, c.Dividend, c.Pre))
		}
		r.Count("calls."+c.Kind, 1)
		if dev > 0 {
			maxDevMu <- struct{}{}
			if dev > maxDev {
				maxDev = dev
			}
			<-maxDevMu
		}
		if msg != "" {
			r.Violation("C14", fmt.Sprintf("%s:%v/%d/%v", c.Kind, c.Prios, c.Dividend, c.Pre), msg, c)
		}
	}
	defer func() { r.Extra["max_rate_deviation_over_n"] = maxDev }()

	if r.Cfg.Replay != "" {
		var doc struct{ Witness divCase }
		if err := readJSON(r.Cfg.Replay, &doc); err != nil {
			t.Fatal(err)
		}
		check(doc.Witness)
		return
	}

	// exhaustive block: all non-empty subsets of {7..1}, dividends 0..64, nil and prefilled
	t.Run("exhaustive", func(t *testing.T) {
		for mask := 1; mask < 1<<7; mask++ {
			var prios []uint
			for b := 6; b >= 0; b-- {
				if mask&(1<<b) != 0 {
					prios = append(prios, uint(b+1))
				}
			}
			for d := uint(0); d <= 64; d++ {
				for _, kind := range []string{"fair", "rate"} {
					check(divCase{Kind: kind, Prios: prios, Dividend: d})
					pre := map[uint]uint{9: 5}
					for i, p := range prios {
						pre[p] = uint(i * 3)
					}
					check(divCase{Kind: kind, Prios: prios, Dividend: d, Pre: pre})
				}
			}
		}
	})
	r.Extra["exhaustive_block"] = "all 127 subsets of {1..7} x dividends 0..64 x {Fair,Rate} x {nil, prefilled+foreign key}"

	chunks := r.Cfg.pick(64, 1024)
	per := r.Cfg.pick(4000, 20000)
	r.Parallel(t, "random", chunks, func(t *testing.T, idx int, rng *rand.Rand) {
		for k := 0; k < per && !r.Stopped(); k++ {
			c := genDivCase(rng)
			check(c)
			if idx == 0 && k < 4 {
				d := maps.Clone(c.Pre)
				if d == nil {
					d = map[uint]uint{}
				}
				if c.Kind == "fair" {
					divider.Fair(c.Prios, c.Dividend, d)
				} else {
					divider.Rate(c.Prios, c.Dividend, d)
				}
				c.Result = d
				r.Sample(c)
			}
		}
	})
}
