package mon

// Join / unite engine: scenario type, generator, runner (works on the fake clock inside a
// bubble and on the real clock outside) and the offline oracles of C03, C08, C09, C10, C11.

import (
	"context"
	"fmt"
	"math/rand/v2"
	"slices"
	"sync"
	"sync/atomic"
	"testing/synctest"
	"time"
	"unsafe"

	v1join "github.com/akramarenkov/cqos/join"
	v2join "github.com/akramarenkov/cqos/v2/join"
	"github.com/akramarenkov/cqos/v2/join/unite"
)

type JoinStep struct {
	Gap    int64 `json:"gap_ns"`              // pause before the write (ns, virtual or real)
	Len    int   `json:"len"`                 // unite: slice length; join: always 1
	Resend bool  `json:"resend,omitempty"`    // unite: send the previous slice object again
	Spare  int   `json:"spare_cap,omitempty"` // unite: the slice is cut out of a larger buffer: cap = len + spare
	Nil    bool  `json:"nil,omitempty"`       // unite: a nil slice (an empty input slice like any other)
	Win    bool  `json:"window,omitempty"`    // unite: the slice is a window base[Off:Off+Len] of one array shared by all windows (they may overlap; capacity runs to the end of the array)
	Off    int   `json:"window_offset,omitempty"`
}

type JoinScenario struct {
	Disc      string     `json:"discipline"` // v1join | v2join | unite
	J         uint       `json:"join_size"`
	NoCopy    bool       `json:"no_copy"`
	Timeout   int64      `json:"timeout_ns"`
	Inacc     uint       `json:"timeout_inaccuracy"`
	InCap     int        `json:"input_capacity"`
	Steps     []JoinStep `json:"steps"`
	FinalGap  int64      `json:"final_gap_ns"` // silence with the input still open before it is closed
	Consumer  string     `json:"consumer"`     // eager | delayed | retaining
	ConsDelay []int64    `json:"consumer_delays_ns,omitempty"`
	Hold      []int64    `json:"hold_ns,omitempty"` // no-copy: time between delivery and release
	Real      bool       `json:"real_time,omitempty"`
	// v1 only: stop / cancel injection (C16, C08): after StopAfter output slices were received
	// (-1: none); StopKind stop|cancel; StopBeforeRelease: inject between delivery and release.
	StopAfter         int    `json:"stop_after,omitempty"`
	StopKind          string `json:"stop_kind,omitempty"`
	StopBeforeRelease bool   `json:"stop_before_release,omitempty"`
	StopDelay         int64  `json:"stop_delay_ns,omitempty"`
	WinBase           int    `json:"window_array_len,omitempty"` // unite: length of the array the window slices are cut from
	StopConcurrent    bool   `json:"stop_concurrent,omitempty"`  // Stop() is called from another goroutine while the consumer keeps reading
	PreNew            int    `json:"steps_before_new,omitempty"` // that many leading steps are written into the (buffered) input before the discipline is created
	CloseBeforeNew    bool   `json:"close_before_new,omitempty"` // all steps fit the buffer: the input is written and closed before creation
	NilCtx            bool   `json:"v1_nil_ctx,omitempty"`       // v1: leave Opts.Ctx nil
	ReleasedCap       int    `json:"v1_released_cap,omitempty"`  // v1 no-copy: capacity of the Released channel
}

func (sc JoinScenario) divider() int64 {
	inacc := sc.Inacc
	if inacc == 0 {
		inacc = 25
	}
	if inacc > 100 {
		return 0
	}
	return int64(100 / inacc)
}

type outRec struct {
	Call      int64 // stamp taken before the receive was called
	Recv      int64 // receive stamp (ns since T0), taken after the receive
	Data      []int // contents at delivery
	Full      []int // s[:cap(s)] at delivery
	Ptr       uintptr
	Cap       int
	RelStart  int64 // release-start stamp (no-copy), -1 if never released
	Poisoned  bool
	ChangedAt string // set when the slice was found modified while owned by the consumer
	slice     []int
}

type inRec struct {
	A, B   int   // positions [A,B) in the concatenated input stream
	WS, WC int64 // write-start / write-completion stamps
	Ptr    uintptr
	Cap    int
	slice  []int // keeps the input slice alive so that its address stays unique
	full   []int // copy of slice[:cap] taken before the write: input slices are never written to by anybody
}

type JoinTrace struct {
	Rejected        string // constructor error, if any
	T0              int64
	In              []inRec
	InData          []int
	Out             []outRec
	Closed          bool  // output observed closed
	ClosedAt        int64 // stamp
	InputClosed     int64 // stamp taken before close(input)
	StuckMsg        string
	ProducerDone    bool
	ExtraOutput     string // something appeared on Output() between delivery and release
	StopCalled      int64
	StopRet         int64 // -1 if Stop did not return within the bound
	AfterStop       string
	InputModified   string // an input slice (over its whole capacity) differs from what it held when it was sent
	afterStopSlices int
	Events          int
}

type joinSys struct {
	send    func(payload []int)
	closeIn func()
	drainIn func() bool // non-blocking receive from the input (used only to unblock the producer after an abort)
	out     <-chan []int
	release func()
	stop    func()
	cancel  func()
}

func newJoinSys(sc JoinScenario, pre func(send func(p []int), closeIn func())) (*joinSys, error) {
	switch sc.Disc {
	case "v2join":
		in := make(chan int, sc.InCap)
		pre(func(p []int) { in <- p[0] }, func() { close(in) })
		d, err := v2join.New(v2join.Opts[int]{Input: in, JoinSize: sc.J, NoCopy: sc.NoCopy, Timeout: time.Duration(sc.Timeout), TimeoutInaccuracy: sc.Inacc})
		if err != nil {
			return nil, err
		}
		s := &joinSys{send: func(p []int) { in <- p[0] }, closeIn: func() { close(in) }, out: d.Output()}
		s.drainIn = func() bool {
			select {
			case _, ok := <-in:
				return ok
			default:
				return false
			}
		}
		if sc.NoCopy {
			s.release = d.Release
		}
		return s, nil
	case "unite":
		in := make(chan []int, sc.InCap)
		pre(func(p []int) { in <- p }, func() { close(in) })
		d, err := unite.New(unite.Opts[int]{Input: in, JoinSize: sc.J, NoCopy: sc.NoCopy, Timeout: time.Duration(sc.Timeout), TimeoutInaccuracy: sc.Inacc})
		if err != nil {
			return nil, err
		}
		s := &joinSys{send: func(p []int) { in <- p }, closeIn: func() { close(in) }, out: d.Output()}
		s.drainIn = func() bool {
			select {
			case _, ok := <-in:
				return ok
			default:
				return false
			}
		}
		if sc.NoCopy {
			s.release = d.Release
		}
		return s, nil
	case "v1join":
		in := make(chan int, sc.InCap)
		pre(func(p []int) { in <- p[0] }, func() { close(in) })
		ctx, cancel := context.WithCancel(context.Background())
		opts := v1join.Opts[int]{Ctx: ctx, Input: in, JoinSize: sc.J, Timeout: time.Duration(sc.Timeout), TimeoutInaccuracy: sc.Inacc}
		if sc.NilCtx {
			opts.Ctx = nil
		}
		var released chan struct{}
		if sc.NoCopy {
			released = make(chan struct{}, sc.ReleasedCap)
			opts.Released = released
		}
		d, err := v1join.New(opts)
		if err != nil {
			cancel()
			return nil, err
		}
		s := &joinSys{send: func(p []int) { in <- p[0] }, closeIn: func() { close(in) }, out: d.Output(), stop: d.Stop, cancel: cancel}
		s.drainIn = func() bool {
			select {
			case _, ok := <-in:
				return ok
			default:
				return false
			}
		}
		if sc.NoCopy {
			s.release = func() { released <- struct{}{} }
		}
		return s, nil
	}
	return nil, fmt.Errorf("unknown discipline %q", sc.Disc)
}

func sliceID(s []int) (uintptr, int) {
	return uintptr(unsafe.Pointer(unsafe.SliceData(s))), cap(s)
}

const poison = -7777777

// runJoin executes the scenario against the real discipline and returns the trace. inBubble
// tells whether synctest.Wait may be used. maxWait bounds every wait for the discipline.
func runJoin(sc JoinScenario, inBubble bool, rng *rand.Rand) *JoinTrace {
	tr := &JoinTrace{StopRet: -2}
	base := time.Now()
	now := func() int64 { return int64(time.Since(base)) }
	tr.T0 = 0
	next := 0
	var prev, winBase []int
	mkPayload := func(st JoinStep) []int {
		var payload []int
		if st.Resend && prev != nil {
			payload = prev
		} else {
			n := st.Len
			if sc.Disc != "unite" {
				n = 1
			}
			if st.Win && sc.Disc == "unite" && st.Off+n <= sc.WinBase {
				if winBase == nil {
					winBase = make([]int, sc.WinBase)
					for i := range winBase {
						winBase[i] = 1000000 + i
					}
				}
				payload = winBase[st.Off : st.Off+n]
			} else {
				payload = make([]int, n, n+st.Spare)
				if st.Nil && sc.Disc == "unite" {
					payload = nil
				}
				for i := range payload {
					payload[i] = next
					next++
				}
			}
		}
		prev = payload
		return payload
	}
	preNew := min(sc.PreNew, len(sc.Steps), sc.InCap)
	if sc.CloseBeforeNew && (sc.PreNew < len(sc.Steps) || len(sc.Steps) > sc.InCap) {
		sc.CloseBeforeNew = false
	}
	closedBeforeNew := false
	sys, err := newJoinSys(sc, func(send func(p []int), closeIn func()) {
		for _, st := range sc.Steps[:preNew] {
			payload := mkPayload(st)
			ptr, cp := sliceID(payload)
			rec := inRec{A: len(tr.InData), B: len(tr.InData) + len(payload), WS: 0, WC: 0, Ptr: ptr, Cap: cp, slice: payload, full: slices.Clone(payload[:cap(payload)])}
			send(payload)
			tr.InData = append(tr.InData, payload...)
			tr.In = append(tr.In, rec)
		}
		if sc.CloseBeforeNew {
			closeIn()
			closedBeforeNew = true
		}
	})
	if err != nil {
		tr.Rejected = err.Error()
		return tr
	}
	// generous bound for "the discipline must react": total script time + many timeouts
	var total int64
	for _, st := range sc.Steps {
		total += st.Gap
	}
	for _, d := range sc.ConsDelay {
		total += d
	}
	for _, d := range sc.Hold {
		total += d
	}
	maxWait := time.Duration(total + sc.FinalGap + 20*min(sc.Timeout, int64(24*time.Hour)) + int64(time.Hour))
	if sc.Real {
		maxWait = 20 * time.Second
	}

	// bound for Stop() to return / the closure to arrive after a stop or cancel
	stopBound := time.Millisecond
	if sc.Real {
		stopBound = 10 * time.Second
	}

	abort := make(chan struct{})
	var wg sync.WaitGroup
	// producer
	wg.Add(1)
	go func() {
		defer wg.Done()
		for _, st := range sc.Steps[preNew:] {
			if st.Gap > 0 {
				select {
				case <-time.After(time.Duration(st.Gap)):
				case <-abort:
					return
				}
			}
			payload := mkPayload(st)
			ptr, cp := sliceID(payload)
			rec := inRec{A: len(tr.InData), B: len(tr.InData) + len(payload), WS: now(), Ptr: ptr, Cap: cp, slice: payload, full: slices.Clone(payload[:cap(payload)])}
			sys.send(payload)
			rec.WC = now()
			tr.InData = append(tr.InData, payload...)
			tr.In = append(tr.In, rec)
		}
		if sc.FinalGap > 0 {
			select {
			case <-time.After(time.Duration(sc.FinalGap)):
			case <-abort:
				return
			}
		}
		tr.InputClosed = now()
		if !closedBeforeNew {
			sys.closeIn()
		}
	}()

	// consumer (this goroutine)
	stopIssued := false
	var stopRetAt atomic.Int64 // concurrent Stop(): when it returned (0: not yet)
	var stopRetCh chan struct{}
	issueStop := func() {
		stopIssued = true
		tr.StopCalled = now()
		if sc.StopKind == "cancel" {
			sys.cancel()
			return
		}
		ret := make(chan struct{})
		if sc.StopConcurrent {
			// the consumer goes on reading while Stop() is in progress in another goroutine
			stopRetCh = ret
			go func() { sys.stop(); stopRetAt.Store(max(now(), 1)); close(ret) }()
			return
		}
		go func() { sys.stop(); close(ret) }()
		select {
		case <-ret:
			tr.StopRet = now()
		case <-time.After(stopBound):
			tr.StopRet = -1
		}
	}
	k := 0
	var pendingSlice *[]int
	timer := time.NewTimer(maxWait)
	defer timer.Stop()
recvLoop:
	for {
		if stopIssued {
			// after a stop / cancel the consumer just drains: whatever is still buffered, then
			// the closure, each within the bound
			maxWait = stopBound
		} else if sc.Consumer != "eager" && k < len(sc.ConsDelay) && sc.ConsDelay[k] > 0 {
			time.Sleep(time.Duration(sc.ConsDelay[k]))
		}
		if sc.Consumer == "retaining" && !sc.NoCopy && len(tr.Out) > 0 && rng.IntN(2) == 0 {
			// poison one retained slice over its whole capacity, after checking it is intact
			i := rng.IntN(len(tr.Out))
			o := &tr.Out[i]
			if !o.Poisoned {
				if !slices.Equal(o.slice[:cap(o.slice)], o.Full) {
					o.ChangedAt = fmt.Sprintf("before poisoning at %d", now())
				}
				full := o.slice[:cap(o.slice)]
				for j := range full {
					full[j] = poison
				}
				o.Poisoned = true
			}
		}
		timer.Reset(maxWait)
		var s []int
		var ok bool
		callAt := now()
		if pendingSlice != nil {
			// a slice that came out while the previous one was still unreleased (already
			// recorded as such): it is consumed like any other, so that what the protocol
			// breach does to the stream is judged too
			s, ok, pendingSlice = *pendingSlice, true, nil
		} else {
			select {
			case s, ok = <-sys.out:
			case <-timer.C:
				tr.StuckMsg = fmt.Sprintf("no output and no closure within %s after %d slices", maxWait, len(tr.Out))
				break recvLoop
			}
		}
		if !ok {
			tr.Closed = true
			tr.ClosedAt = now()
			break
		}
		if stopIssued && sc.StopKind == "stop" && (tr.StopRet >= 0 || (sc.StopConcurrent && stopRetAt.Load() > 0 && stopRetAt.Load() < callAt)) {
			tr.afterStopSlices++
			if tr.afterStopSlices > 1 {
				// the output buffer of v1 join holds one slice: more than one after Stop returned
				// means the discipline kept writing
				tr.AfterStop = fmt.Sprintf("%d slices were received after Stop() had returned (output buffer capacity is 1)", tr.afterStopSlices)
			}
		}
		rec := outRec{Call: callAt, Recv: now(), Data: slices.Clone(s), Full: slices.Clone(s[:cap(s)]), RelStart: -1, slice: s}
		rec.Ptr, rec.Cap = sliceID(s)
		tr.Out = append(tr.Out, rec)
		o := &tr.Out[len(tr.Out)-1]
		tr.Events++
		if sc.StopKind != "" && !stopIssued && k == sc.StopAfter && sc.StopBeforeRelease {
			if sc.StopDelay > 0 {
				time.Sleep(time.Duration(sc.StopDelay))
			}
			issueStop()
		}
		if sys.release != nil && !stopIssued { // after a stop / cancel nobody waits for a release signal any more
			hold := int64(0)
			if k < len(sc.Hold) {
				hold = sc.Hold[k]
			}
			if hold > 0 {
				time.Sleep(time.Duration(hold))
			}
			if inBubble {
				synctest.Wait()
			}
			// while the consumer owns the slice: nothing else may appear and the slice is intact
			closedEarly := false
			select {
			case x, ok2 := <-sys.out:
				if ok2 {
					if tr.ExtraOutput == "" {
						tr.ExtraOutput = fmt.Sprintf("slice %v appeared on Output() before slice #%d was released", x, k)
					}
					pendingSlice = &x
				} else {
					tr.ExtraOutput = fmt.Sprintf("Output() closed before slice #%d was released", k)
					closedEarly = true
				}
			default:
			}
			if !slices.Equal(s[:cap(s)], o.Full) {
				o.ChangedAt = fmt.Sprintf("between delivery and release (held %dns)", hold)
			}
			o.RelStart = now()
			if !closedEarly {
				rel := make(chan struct{})
				go func() { sys.release(); close(rel) }()
				select {
				case <-rel:
				case <-time.After(maxWait):
					tr.StuckMsg = fmt.Sprintf("Release() of slice #%d did not return within %s", k, maxWait)
					break recvLoop
				}
			} else {
				break recvLoop
			}
		}
		if sc.StopKind != "" && !stopIssued && k == sc.StopAfter && !sc.StopBeforeRelease {
			if sc.StopDelay > 0 {
				time.Sleep(time.Duration(sc.StopDelay))
			}
			issueStop()
		}
		k++
	}
	if stopRetCh != nil {
		select {
		case <-stopRetCh:
			tr.StopRet = stopRetAt.Load()
		case <-time.After(stopBound):
			tr.StopRet = -1
		}
	}
	close(abort)
	// let an aborted producer finish: after a stop nobody reads the input any more, so the
	// harness itself takes what the producer still writes
	wgDone := make(chan struct{})
	go func() { wg.Wait(); close(wgDone) }()
	deadline := time.After(maxWait)
drain:
	for {
		select {
		case <-wgDone:
			tr.ProducerDone = true
			break drain
		case <-deadline:
			tr.StuckMsg += " producer did not finish"
			break drain
		default:
			if !sys.drainIn() {
				time.Sleep(time.Microsecond)
			}
		}
	}
	// final ownership check of everything the consumer still holds un-poisoned
	if inBubble {
		synctest.Wait()
	}
	for i := range tr.Out {
		o := &tr.Out[i]
		if o.Poisoned || o.ChangedAt != "" {
			continue
		}
		if sc.NoCopy && o.RelStart >= 0 {
			continue // released: the discipline may reuse the buffer
		}
		if !slices.Equal(o.slice[:cap(o.slice)], o.Full) {
			o.ChangedAt = "found modified at the end of the scenario"
		}
	}
	// what was written to the input stays the producer's memory: nobody may have written to it
	// (the harness never does: retained output slices are only poisoned in copy mode)
	if tr.ProducerDone {
		for i := range tr.In {
			in := &tr.In[i]
			if !slices.Equal(in.slice[:cap(in.slice)], in.full) {
				tr.InputModified = fmt.Sprintf("input slice #%d (len %d, cap %d) was written to: now %v, when sent %v", i, len(in.slice), cap(in.slice), in.slice[:cap(in.slice)], in.full)
				break
			}
		}
	}
	return tr
}

// ---------------------------------------------------------------------------------------
// offline oracles

type joinFinding struct {
	Prop string
	Key  string
	Msg  string
}

type joinStats struct {
	TimeoutFlushes int // short non-final slices
	FullFlushes    int
	Oversize       int
	MinTimeoutGap  int64 // min over short non-final slices of (recv - reference) - Timeout
	MaxWaitPermil  int64 // max over slices of (recv - wc(oldest)) * 1000 / Timeout
	Retained       int
	Poisoned       int
	Holds          int
}

// judgeJoin applies the oracles to a completed trace. Only oracles whose preconditions the
// scenario satisfies are evaluated (see DESIGN.md section 3 and 5).
func judgeJoin(sc JoinScenario, tr *JoinTrace, inBubble bool) (fs []joinFinding, st joinStats) {
	add := func(prop, key, format string, a ...any) {
		fs = append(fs, joinFinding{prop, key, fmt.Sprintf(format, a...)})
	}
	st.MinTimeoutGap = 1 << 62
	isUnite := sc.Disc == "unite"
	J := int(sc.J)
	T := sc.Timeout
	if T < 0 {
		T = 0
	}
	stopped := sc.StopKind != ""

	// ownership (C08) is judged on every trace, complete or not
	if tr.InputModified != "" {
		add("C08", "input-modified", "the discipline wrote to memory of an input slice: %s", tr.InputModified)
	}
	for i, o := range tr.Out {
		if o.ChangedAt != "" {
			add("C08", "modified", "output slice #%d %v was modified while the consumer owned it (%s); mode no_copy=%v", i, o.Data, o.ChangedAt, sc.NoCopy)
		}
		if o.Poisoned {
			st.Poisoned++
		}
	}
	if tr.ExtraOutput != "" {
		add("C08", "output-before-release", "%s", tr.ExtraOutput)
	}
	if sc.NoCopy && sc.StopKind != "" && sc.StopBeforeRelease {
		// the slice delivered before the stop/cancel was never released: nothing may follow it,
		// least of all its own buffer again
		for i := range tr.Out {
			if i > sc.StopAfter && i > 0 {
				shared := ""
				if tr.Out[i].Ptr == tr.Out[sc.StopAfter].Ptr {
					shared = " and it is the very buffer the consumer still holds"
				}
				add("C08", "output-after-unreleased", "no-copy mode: slice #%d %v was produced although slice #%d %v had been delivered before the %s and was never released%s", i, tr.Out[i].Data, sc.StopAfter, tr.Out[sc.StopAfter].Data, sc.StopKind, shared)
				break
			}
		}
	}
	if !sc.NoCopy && tr.ProducerDone {
		// retained copy-mode outputs share no memory with each other nor with input slices
		type region struct {
			lo, hi uintptr
			what   string
		}
		var regs []region
		for i, o := range tr.Out {
			if o.Cap == 0 {
				continue
			}
			regs = append(regs, region{o.Ptr, o.Ptr + uintptr(o.Cap)*unsafe.Sizeof(int(0)), fmt.Sprintf("output #%d", i)})
		}
		nOut := len(regs)
		if isUnite {
			seen := map[uintptr]bool{}
			for i, in := range tr.In {
				if in.Cap == 0 || seen[in.Ptr] {
					continue
				}
				seen[in.Ptr] = true
				regs = append(regs, region{in.Ptr, in.Ptr + uintptr(in.Cap)*unsafe.Sizeof(int(0)), fmt.Sprintf("input slice #%d", i)})
			}
		}
		for i := 0; i < nOut; i++ {
			for j := i + 1; j < len(regs); j++ {
				if regs[i].lo < regs[j].hi && regs[j].lo < regs[i].hi {
					add("C08", "shared-memory", "copy mode: %s shares memory with %s", regs[i].what, regs[j].what)
				}
			}
		}
		st.Retained = nOut
	} else {
		for _, o := range tr.Out {
			if o.RelStart >= 0 {
				st.Holds++
			}
		}
	}
	if !tr.ProducerDone {
		add("C19", "stuck", "join scenario did not complete: %s", tr.StuckMsg)
		return
	}

	if tr.StuckMsg != "" && !stopped {
		add("C19", "stuck", "join discipline did not terminate: %s", tr.StuckMsg)
		return
	}

	// concatenation / order: delivered data is a prefix of (stopped) or equal to the input stream
	var cat []int
	outStart := make([]int, len(tr.Out)+1)
	for i, o := range tr.Out {
		outStart[i] = len(cat)
		if len(o.Data) == 0 {
			add("C03", "empty-slice", "output slice #%d is empty", i)
			if isUnite {
				add("C11", "empty-output", "output slice #%d is empty: empty input slices must produce nothing", i)
			}
		}
		cat = append(cat, o.Data...)
	}
	outStart[len(tr.Out)] = len(cat)
	if stopped && tr.StopRet == -1 {
		add("C16", "stop-hangs", "v1 join: Stop() did not return within the bound after it was called at %dns (slices received so far: %d)", tr.StopCalled, len(tr.Out))
	}
	if stopped && tr.StuckMsg != "" {
		add("C16", "no-closure-after-stop", "v1 join: %s injected at %dns but the output was not closed within the bound: %s", sc.StopKind, tr.StopCalled, tr.StuckMsg)
	}
	if stopped && tr.AfterStop != "" {
		add("C16", "open-after-stop", "v1 join: %s", tr.AfterStop)
	}
	if stopped {
		// C16: whatever was delivered is an in-order duplicate-free subsequence of what was
		// written (elements are written in increasing order 0,1,2,...)
		for i := 1; i < len(cat); i++ {
			if cat[i] <= cat[i-1] {
				add("C16", "order", "after stop: delivered elements are not an in-order duplicate-free subsequence at position %d: %v", i, cat[max(0, i-3):min(len(cat), i+3)])
				break
			}
		}
		if len(cat) > 0 && (cat[len(cat)-1] >= len(sc.Steps) || cat[0] < 0) {
			add("C16", "not-written", "after stop: delivered an element that was never written")
		}
		// C08 (v1, no-copy): elements enter the accumulation buffer in the order they are read,
		// so every slice is a run of consecutive elements; one that is not was rewritten after it
		// had been filled - e.g. while it sat, delivered but unread, in the output buffer
		if sc.NoCopy && !isUnite {
			for i, o := range tr.Out {
				for j := 1; j < len(o.Data); j++ {
					if o.Data[j] != o.Data[j-1]+1 {
						add("C08", "rewritten-before-read", "no-copy mode, %s injected: output slice #%d %v is not a run of consecutive input elements - its memory was written to after it had been filled and sent", sc.StopKind, i, o.Data)
						break
					}
				}
			}
		}
		return
	}
	if !tr.Closed {
		return
	}
	if !slices.Equal(cat, tr.InData) {
		// locate the first difference
		i := 0
		for i < len(cat) && i < len(tr.InData) && cat[i] == tr.InData[i] {
			i++
		}
		add("C03", "concatenation", "concatenation of the output slices differs from the input stream at position %d (out len %d, in len %d): out=%v in=%v", i, len(cat), len(tr.InData), cat[max(0, i-2):min(len(cat), i+4)], tr.InData[max(0, i-2):min(len(tr.InData), i+4)])
		if isUnite {
			judgeUniteByValue(sc, tr, add)
			judgeUniteBySearch(sc, tr, add)
		}
		return // positional oracles below need the equality
	}
	// map positions to input slices
	inIdxAt := func(pos int) int { // index of the input record containing stream position pos
		lo, hi := 0, len(tr.In)
		for lo < hi {
			m := (lo + hi) / 2
			if tr.In[m].B <= pos {
				lo = m + 1
			} else {
				hi = m
			}
		}
		// skip empty records
		for lo < len(tr.In) && tr.In[lo].A == tr.In[lo].B {
			lo++
		}
		return lo
	}
	for i, o := range tr.Out {
		a, b := outStart[i], outStart[i+1]
		n := b - a
		if n == 0 {
			continue
		}
		if !isUnite {
			if n > J {
				add("C03", "oversize", "join slice #%d has %d elements, JoinSize %d", i, n, J)
			}
		} else if n > J {
			k := inIdxAt(a)
			if !(k < len(tr.In) && tr.In[k].A == a && tr.In[k].B == b && n >= J) {
				add("C03", "oversize", "unite slice #%d has %d > JoinSize %d elements but is not exactly one input slice", i, n, J)
			} else {
				st.Oversize++
			}
		}
		final := i == len(tr.Out)-1
		// maximality
		maximal := n >= J
		if isUnite && !maximal {
			k := inIdxAt(b) // next non-empty input slice after this output slice
			if k < len(tr.In) && tr.In[k].A == b {
				maximal = n+(tr.In[k].B-tr.In[k].A) > J
			} else if k < len(tr.In) {
				maximal = false // b falls inside an input slice: split, reported by C11
			}
		}
		if maximal {
			st.FullFlushes++
		}
		if !maximal && !final {
			st.TimeoutFlushes++
			if T == 0 {
				add("C09", "short-no-timeout", "%s without timeout: non-final slice #%d has %d elements and is not maximal (JoinSize %d)", sc.Disc, i, n, J)
			} else {
				// delivered no earlier than Timeout after the previous slice was delivered / after creation
				ref := tr.T0
				what := "creation"
				if i > 0 {
					// write-start of the last element of the previous slice (sound in V and R)
					last := outStart[i] - 1
					k := inIdxAt(last)
					if k < len(tr.In) {
						ref = tr.In[k].WS
						what = "write-start of the last element of the previous slice"
					}
					if inBubble && sc.Consumer == "eager" && !sc.NoCopy {
						if tr.Out[i-1].Recv > ref {
							ref = tr.Out[i-1].Recv
							what = "delivery of the previous slice"
						}
					}
					// The previous slice cannot have entered the output buffer (capacity C) before
					// the consumer had started to receive the slice C places before it; the
					// timeout runs from the completion of that send at the earliest.
					outCap := 1 + sc.InCap
					if sc.Disc == "v1join" {
						outCap = 1
					}
					if j := i - 1 - outCap; j >= 0 && tr.Out[j].Call > ref {
						ref = tr.Out[j].Call
						what = fmt.Sprintf("the moment the consumer began to receive slice #%d (which made room in the output buffer of capacity %d for slice #%d)", j, outCap, i-1)
					}
				}
				gap := o.Recv - ref
				if gap-T < st.MinTimeoutGap {
					st.MinTimeoutGap = gap - T
				}
				if gap < T {
					add("C09", "early-flush", "%s: non-final non-maximal slice #%d (%d of %d elements) delivered %dns after %s, earlier than Timeout %dns", sc.Disc, i, n, J, gap, what, T)
				}
			}
		}
		// C10: flush within Timeout*(1+1/d) after acceptance; fake clock and eager consumer only
		if T > 0 && inBubble && sc.Consumer == "eager" {
			hold0 := true
			for _, h := range sc.Hold {
				if h != 0 {
					hold0 = false
				}
			}
			d := sc.divider()
			if hold0 && d > 0 {
				k := inIdxAt(a)
				if k < len(tr.In) {
					wait := o.Recv - tr.In[k].WC
					if pm := wait * 1000 / T; pm > st.MaxWaitPermil {
						st.MaxWaitPermil = pm
					}
					if T < 1<<52 && wait < 1<<52 && wait*d > T*(d+1) { // (beyond that the products leave int64: a run never lasts that long)
						add("C10", "late-flush", "%s: element %d (oldest of slice #%d) stayed %dns in the discipline, bound Timeout*(1+1/%d) = %dns (Timeout %dns, inaccuracy %d%%)", sc.Disc, tr.InData[a], i, wait, d, T*(d+1)/d, T, sc.Inacc)
					}
				}
			}
		}
	}
	// C11: every non-empty input slice lies wholly inside one output slice; oversize alone
	if isUnite {
		oi := 0
		for k, in := range tr.In {
			if in.A == in.B {
				continue
			}
			for oi < len(tr.Out) && outStart[oi+1] <= in.A {
				oi++
			}
			if oi >= len(tr.Out) {
				break
			}
			if !(outStart[oi] <= in.A && in.B <= outStart[oi+1]) {
				add("C11", "split", "input slice #%d (stream positions [%d,%d), len %d) is split across output slices (output #%d covers [%d,%d)); JoinSize %d", k, in.A, in.B, in.B-in.A, oi, outStart[oi], outStart[oi+1], J)
				continue
			}
			if in.B-in.A >= J && !(outStart[oi] == in.A && outStart[oi+1] == in.B) {
				add("C11", "oversize-not-alone", "input slice #%d of %d >= JoinSize %d elements was not delivered as an output slice of its own (output #%d covers [%d,%d), slice is [%d,%d))", k, in.B-in.A, J, oi, outStart[oi], outStart[oi+1], in.A, in.B)
			}
		}
	}
	return
}

// judgeUniteByValue is C11 for traces whose concatenation differs from the input stream
// (positions no longer correspond): elements are unique unless slices were re-sent, so every
// element names its input slice. No input slice may be split, and an input slice of at least
// JoinSize elements must be an output of its own that comes after everything written before it.
func judgeUniteByValue(sc JoinScenario, tr *JoinTrace, add func(prop, key, format string, a ...any)) {
	for _, st := range sc.Steps {
		if st.Resend || st.Win {
			return
		}
	}
	owner := map[int]int{} // element value -> input slice index
	for k, in := range tr.In {
		for p := in.A; p < in.B; p++ {
			owner[tr.InData[p]] = k
		}
	}
	where := map[int]int{} // input slice -> output slice holding (the first of) its elements
	for oi, o := range tr.Out {
		for _, v := range o.Data {
			k, ok := owner[v]
			if !ok {
				continue
			}
			if prev, seen := where[k]; seen && prev != oi {
				add("C11", "split", "input slice #%d is split across output slices #%d and #%d (JoinSize %d)", k, prev, oi, sc.J)
				return
			}
			where[k] = oi
		}
	}
	for k, in := range tr.In {
		if _, ok := where[k]; !ok && in.B > in.A && tr.Closed {
			add("C11", "never-delivered", "non-empty input slice #%d (%d elements) appears in no output slice although the output was read until it closed", k, in.B-in.A)
			return
		}
	}
	for k, in := range tr.In {
		n := in.B - in.A
		oi, ok := where[k]
		if n < int(sc.J) || !ok {
			continue
		}
		if len(tr.Out[oi].Data) != n {
			add("C11", "oversize-not-alone", "input slice #%d of %d >= JoinSize %d elements was not delivered as an output slice of its own (it is inside output #%d of %d elements)", k, n, sc.J, oi, len(tr.Out[oi].Data))
			return
		}
		for e := 0; e < k; e++ {
			if oe, ok := where[e]; ok && oe > oi {
				add("C11", "oversize-overtakes", "input slice #%d of %d >= JoinSize %d elements was delivered (output #%d) before input slice #%d that was written earlier (output #%d)", k, n, sc.J, oi, e, oe)
				return
			}
		}
	}
}

// judgeUniteBySearch is C11 without any assumption about unique elements (slices re-sent,
// overlapping windows of one array): the content of every non-empty input slice must occur
// contiguously inside at least one output slice. An accidental occurrence can hide a loss, it
// can never produce an alarm.
func judgeUniteBySearch(sc JoinScenario, tr *JoinTrace, add func(prop, key, format string, a ...any)) {
	if !tr.Closed {
		return
	}
	for k, in := range tr.In {
		want := tr.InData[in.A:in.B]
		if len(want) == 0 {
			continue
		}
		found := false
		for _, o := range tr.Out {
			for s := 0; s+len(want) <= len(o.Data) && !found; s++ {
				found = slices.Equal(o.Data[s:s+len(want)], want)
			}
			if found {
				break
			}
		}
		if !found {
			add("C11", "not-whole-anywhere", "input slice #%d %v occurs contiguously in no output slice although the output was read until it closed", k, want)
			return
		}
	}
}

// ---------------------------------------------------------------------------------------
// generator

type joinGen struct {
	Discs     []string
	Timeout   int  // 0 any, 1 always, -1 never
	EagerOnly bool // consumer always ready, immediate release
	NoCopy    int  // 0 any, 1 always, -1 never
	Retain    bool // copy-mode consumers retain and poison; no-copy consumers hold
	Real      bool
	Trickle   bool // favour the arrival patterns of C10
	Stop      int  // v1 join: 0 none, 1 stop/cancel at a random delivered slice, 2 same but always before the release
}

func genJoinScenario(rng *rand.Rand, g joinGen) JoinScenario {
	sc := JoinScenario{StopAfter: -1}
	sc.Disc = g.Discs[rng.IntN(len(g.Discs))]
	sc.Real = g.Real
	switch rng.IntN(6) {
	case 0:
		sc.J = 1
	case 1:
		sc.J = uint(32 + rng.IntN(225))
	default:
		sc.J = uint(2 + rng.IntN(7))
	}
	if !g.Real && rng.IntN(30) == 0 {
		sc.J = uint(1025 + rng.IntN(3000)) // beyond any preallocation size a buffer might be capped at
	}
	if g.Real && sc.J > 16 {
		sc.J = uint(2 + rng.IntN(7))
	}
	switch g.NoCopy {
	case 1:
		sc.NoCopy = true
	case 0:
		sc.NoCopy = rng.IntN(2) == 0
	}
	// inaccuracy and timeout
	switch rng.IntN(5) {
	case 0:
		sc.Inacc = 0 // default 25
	case 1:
		sc.Inacc = 100
	case 2:
		sc.Inacc = 1
	default:
		sc.Inacc = uint(1 + rng.IntN(100))
	}
	d := sc.divider()
	withTimeout := g.Timeout == 1 || (g.Timeout == 0 && rng.IntN(3) != 0)
	if withTimeout {
		if g.Real {
			ms := int64(time.Millisecond)
			if sc.Disc == "v1join" {
				sc.Timeout = d*10*ms + int64(rng.IntN(3))*5*ms
				if sc.Timeout > 60*ms { // keep real scenarios short: coarse inaccuracy for v1
					sc.Inacc = uint(50 + rng.IntN(51))
					d = sc.divider()
					sc.Timeout = d*10*ms + int64(rng.IntN(3))*5*ms
				}
			} else {
				sc.Timeout = int64(2+rng.IntN(20)) * ms
			}
		} else {
			var unit int64
			switch rng.IntN(5) {
			case 0:
				unit = 1 // a few ns
			case 1:
				unit = int64(time.Microsecond)
			case 2:
				unit = int64(time.Millisecond)
			case 3:
				unit = int64(time.Second)
			default:
				unit = int64(1 + rng.IntN(1000))
			}
			sc.Timeout = d * unit * int64(1+rng.IntN(4))
			if rng.IntN(3) == 0 {
				sc.Timeout += int64(rng.IntN(int(d) + 1)) // not a multiple of the divider
			}
			if sc.Disc == "v1join" && sc.Timeout/d < int64(10*time.Millisecond) {
				sc.Timeout = d*int64(10*time.Millisecond) + int64(rng.IntN(1000))*int64(time.Microsecond)
			}
		}
	}
	if !withTimeout && rng.IntN(4) == 0 {
		sc.Timeout = -1 - rng.Int64N(1000000) // zero or negative: no timeout
	}
	hugeTimeout := withTimeout && !g.Real && rng.IntN(25) == 0
	if hugeTimeout {
		// "practically never": years (nothing is flushed by it in a run; everything else must work)
		sc.Timeout = int64(365*24*time.Hour) * int64(1+rng.IntN(250))
	}
	T := max(sc.Timeout, 0)
	if hugeTimeout {
		T = int64(time.Millisecond) // pauses of the script are not scaled to it
	}
	tick := int64(0)
	if T > 0 && d > 0 {
		tick = T / d
	}
	switch rng.IntN(4) {
	case 0:
		sc.InCap = 0
	case 1:
		sc.InCap = 1
	case 2:
		sc.InCap = int(sc.J)
	default:
		sc.InCap = rng.IntN(3*int(sc.J) + 1)
	}
	if sc.InCap > 64 {
		sc.InCap = 64
	}
	nSteps := 3 + rng.IntN(40)
	if g.Real {
		nSteps = 3 + rng.IntN(25)
	}
	if sc.J > 1024 {
		nSteps = 3 + rng.IntN(14)
		if sc.Disc != "unite" {
			nSteps = int(sc.J) + rng.IntN(2*int(sc.J)) // join needs that many elements to fill a slice at all
		}
	}
	pattern := rng.IntN(5)
	if g.Trickle {
		pattern = []int{1, 2, 4}[rng.IntN(3)]
	}
	gap := func() int64 {
		if T == 0 {
			if g.Real {
				return int64(rng.IntN(3)) * int64(rng.IntN(300)) * int64(time.Microsecond)
			}
			return int64(rng.IntN(3)) * int64(rng.IntN(1000))
		}
		switch pattern {
		case 0: // bursts separated by long silences
			if rng.IntN(4) == 0 {
				return T + int64(rng.Int64N(2*T+1))
			}
			return 0
		case 1: // steady trickle just under the timeout
			return T - 1 - int64(rng.Int64N(T/4+1))
		case 2: // tick aligned
			if tick > 0 {
				return tick * int64(rng.IntN(int(2*d)+2))
			}
			return T
		case 3: // short gaps
			return int64(rng.Int64N(T/2 + 1))
		default: // mixed
			switch rng.IntN(4) {
			case 0:
				return 0
			case 1:
				return int64(rng.Int64N(T/2 + 1))
			case 2:
				return T
			default:
				return int64(rng.Int64N(3*T + 1))
			}
		}
	}
	for i := 0; i < nSteps; i++ {
		st := JoinStep{Gap: gap(), Len: 1}
		if sc.Disc == "unite" {
			j := int(sc.J)
			switch rng.IntN(8) {
			case 0:
				st.Len = 0
				st.Nil = rng.IntN(2) == 0
			case 1:
				st.Len = 1
			case 2:
				st.Len = j
			case 3:
				st.Len = j + 1 + rng.IntN(3)
			case 4:
				st.Len = j * (2 + rng.IntN(3))
			case 5:
				st.Len = max(j-1-rng.IntN(1+j/16), 0)
			default:
				st.Len = rng.IntN(j + 2)
			}
			if i > 0 && rng.IntN(12) == 0 {
				st.Resend = true
			}
			if rng.IntN(6) == 0 { // a sub-slice of a larger reusable buffer: capacity beyond the length
				st.Spare = 1 + rng.IntN(2*j+2)
			}
		}
		if st.Gap < 0 {
			st.Gap = 0
		}
		sc.Steps = append(sc.Steps, st)
	}
	if sc.Disc == "unite" && rng.IntN(8) == 0 {
		// every slice is a window of one shared array: overlapping, out of memory order, with
		// the rest of the array as spare capacity - all of it the producer's memory
		maxLen := 1
		for _, st := range sc.Steps {
			maxLen = max(maxLen, st.Len)
		}
		sc.WinBase = 2*maxLen + 8 + rng.IntN(4*maxLen+1)
		off := 0
		for i := range sc.Steps {
			st := &sc.Steps[i]
			if st.Nil || st.Resend {
				continue
			}
			st.Win, st.Spare = true, 0
			switch rng.IntN(3) {
			case 0: // sliding, overlapping
				off += 1 + rng.IntN(max(st.Len, 1))
			case 1: // anywhere (also backwards)
				off = rng.IntN(sc.WinBase)
			}
			if off+st.Len > sc.WinBase {
				off = rng.IntN(sc.WinBase - st.Len + 1)
			}
			st.Off = off
		}
	}
	if T > 0 {
		switch rng.IntN(3) {
		case 0:
			sc.FinalGap = 0
		case 1:
			sc.FinalGap = 3 * T // single element then silence with the input left open
		default:
			sc.FinalGap = int64(rng.Int64N(2*T + 1))
		}
	}
	// consumer
	sc.Consumer = "eager"
	if !g.EagerOnly {
		switch rng.IntN(3) {
		case 0:
			sc.Consumer = "delayed"
		case 1:
			if g.Retain {
				sc.Consumer = "retaining"
			}
		}
	}
	if g.Retain && !sc.NoCopy {
		sc.Consumer = "retaining"
	}
	if sc.Consumer != "eager" {
		for i := 0; i < nSteps+2; i++ {
			var dl int64
			switch rng.IntN(4) {
			case 0:
				dl = 0
			case 1:
				if T > 0 {
					dl = T / 3
				} else {
					dl = int64(rng.IntN(500))
				}
			case 2:
				if T > 0 {
					dl = 2 * T
				} else {
					dl = int64(rng.IntN(5000))
				}
			default:
				if T > 0 {
					dl = int64(rng.Int64N(T + 1))
				}
			}
			if g.Real && dl > int64(30*time.Millisecond) {
				dl = int64(30 * time.Millisecond)
			}
			sc.ConsDelay = append(sc.ConsDelay, dl)
		}
	}
	if sc.NoCopy && !g.EagerOnly {
		for i := 0; i < nSteps+2; i++ {
			var h int64
			switch rng.IntN(3) {
			case 0:
				h = 0
			case 1:
				if T > 0 {
					h = int64(rng.Int64N(3*T + 1))
				} else {
					h = int64(rng.IntN(2000))
				}
			default:
				if T > 0 {
					h = T + tick
				} else {
					h = 1
				}
			}
			if g.Real && h > int64(30*time.Millisecond) {
				h = int64(30 * time.Millisecond)
			}
			sc.Hold = append(sc.Hold, h)
		}
	}
	if sc.Disc == "v1join" {
		sc.ReleasedCap = rng.IntN(2)
	}
	if sc.InCap > 0 && rng.IntN(5) == 0 {
		sc.PreNew = 1 + rng.IntN(sc.InCap)
		if sc.PreNew >= len(sc.Steps) && len(sc.Steps) <= sc.InCap && rng.IntN(2) == 0 {
			sc.CloseBeforeNew = true // everything is already there, and the input closed, when the discipline starts
			sc.FinalGap = 0
		}
	}
	if g.Stop != 0 && sc.Disc == "v1join" {
		sc.StopKind = []string{"stop", "cancel"}[rng.IntN(2)]
		sc.StopAfter = rng.IntN(4)
		sc.StopBeforeRelease = sc.NoCopy && (g.Stop == 2 || rng.IntN(2) == 0)
		switch rng.IntN(3) {
		case 1:
			if T > 0 {
				sc.StopDelay = rng.Int64N(T + 1)
			} else {
				sc.StopDelay = int64(rng.IntN(1000))
			}
		case 2:
			sc.StopDelay = 1
		}
		if g.Stop == 2 {
			// keep the input busy so that the discipline has elements and ticks to react to
			// between the stop signal and its exit
			if sc.InCap < int(sc.J) {
				sc.InCap = int(sc.J)
			}
			for i := range sc.Steps {
				if rng.IntN(3) != 0 {
					sc.Steps[i].Gap = 0
				}
			}
		}
	}
	if sc.Disc == "v1join" && sc.StopKind == "stop" && !sc.StopBeforeRelease && rng.IntN(2) == 0 {
		// Stop() from another goroutine while the consumer keeps reading and the producer keeps
		// the input full: the discipline still has elements to pick between the stop signal
		// and its exit, and what it delivers then is the consumer's like everything else
		sc.StopConcurrent = true
		if sc.InCap < 2*int(sc.J) {
			sc.InCap = 2 * int(sc.J)
		}
		for i := range sc.Steps {
			if rng.IntN(4) != 0 {
				sc.Steps[i].Gap = 0
			}
		}
	}
	if sc.Disc == "v1join" && sc.StopKind != "cancel" {
		sc.NilCtx = rng.IntN(4) == 0
	}
	return sc
}

func (sc JoinScenario) class() string {
	t := "timeout"
	if sc.Timeout <= 0 {
		t = "no-timeout"
	}
	m := "copy"
	if sc.NoCopy {
		m = "no-copy"
	}
	st := ""
	if sc.StopKind != "" {
		st = "/" + sc.StopKind
		if sc.StopBeforeRelease {
			st += "-before-release"
		}
	}
	return fmt.Sprintf("%s/%s/%s/%s%s", sc.Disc, m, t, sc.Consumer, st)
}
