package mon

// C16 — v1 Stop / cancel / Stop-after-GracefulStop injected at every point of a run, for the
// priority, simplified priority and join disciplines (fault enumeration over script positions).

import (
	"fmt"
	"math/rand/v2"
	"testing"
)

func TestC16(t *testing.T) {
	r := newRun(t, "C16", "fault_enumeration")
	defer r.Finish(t)
	r.Rule = "v1 priority and v1 Simple: per base script (N operations: writes, drains without release, release groups, sleeps, closes) the signal {Stop, context cancel, Stop after a pending GracefulStop} is injected after EVERY prefix k in 0..N (plus prefixes in which nobody drains at all: output full / producers blocked); the state at injection is recorded (held/H, output fill, blocked writers); nobody reads the output and nobody releases while the harness waits; oracle: Stop() returns / Err() closes within 50us virtual (a busy loop is classified by the real-time watchdog from stack samples), Err() is closed once Stop returned, over a further 5us virtual the harness-owned output does not grow although inputs still hold items, Simple: no Handle call is entered or still running afterwards, everything delivered is an in-order duplicate-free subsequence of what was written; a quarter of the injections issue two concurrent Stop() calls, a quarter Stop together with cancel, a quarter of the v1 runs leave Opts.Ctx nil, and after completion a further Stop / GracefulStop / cancel / Stop sequence must return at once. v1 join (copy / no-copy): Stop / cancel after a random delivered slice, before or after its release, with the consumer slow or the release never sent; Stop() returns and the output closes within 1ms virtual, at most the one buffered slice is read afterwards. Real-clock blocks: the same join signals racing with live traffic; v1 priority / Simple with H handler goroutines, producers and the signal from a control goroutine at a random offset (order, duplicates, and nothing written to the harness-owned output once the stop has completed and every handler has left). non-trivial = injection landed in a non-idle state (items in flight, output full, producers blocked) or, for join, after at least one delivered slice; distinct by (scenario, position, signal)"
	r.Rule += " | also: Stop / cancel right after the constructor has returned; Stop() after a divider fault whose error nobody read from Err()"
	r.Assumptions = []string{prioAssume, "Handle of the simplified discipline honours its context (it returns when the context is cancelled)"}
	r.Floor = 30
	if r.Cfg.Replay != "" {
		var probe struct {
			Witness struct {
				Scenario struct {
					Discipline string `json:"discipline"`
				}
			}
		}
		if err := readJSON(r.Cfg.Replay, &probe); err == nil && probe.Witness.Scenario.Discipline != "" {
			replayJoin(t, r)
		} else {
			replayPrio(t, r)
		}
		return
	}
	kinds := []string{"stop", "cancel", "gstop"}
	r.Parallel(t, "priority-every-position", r.Cfg.pick(70, 1200), func(t *testing.T, idx int, rng *rand.Rand) {
		base := genPrioScenario(rng, prioGen{Vers: []string{"v1", "v1", "v1s"}, Dividers: allDividers, Mode: "general", MaxH: 24})
		for len(base.Script) > 28 || base.H > 40 {
			base = genPrioScenario(rng, prioGen{Vers: []string{"v1", "v1", "v1s"}, Dividers: allDividers, Mode: "general", MaxH: 24})
		}
		// small harness-owned channels make "output full" and "waiting for a release" reachable
		base.OutCap = []int{0, 1, 2, int(base.H) / 2, int(base.H)}[rng.IntN(5)]
		for k := 0; k <= len(base.Script); k++ {
			for _, kind := range kinds {
				if r.Stopped() {
					return
				}
				sc := base
				sc.Script = append(append([]POp{}, base.Script[:k]...), POp{K: kind, D: int64(rng.IntN(200)), N: rng.IntN(4)})
				c := r.prioCase(t, sc)
				if c.res == nil || !c.res.StopInjected {
					continue
				}
				r.Count("signals_injected."+kind, 1)
				r.Count("repeated_stop_sequences_after_termination", int64(c.res.RepeatedStops))
				r.Distinct("injection_states", sc.Ver+"/"+c.res.StopState)
				r.Count("injection_state."+c.res.StopState, 1)
				if c.res.StopState != kind+"/idle" {
					r.NonTrivial(fmt.Sprint(jsonString(base), k, kind))
					if r.WantSample() && kind != "cancel" {
						s := prioSample(c)
						s["state_at_injection"] = c.res.StopState
						r.Sample(s)
					}
				}
			}
		}
	})
	// prefixes in which nobody drains / releases at all
	r.Parallel(t, "priority-hostile-prefix", r.Cfg.pick(600, 20000), func(t *testing.T, idx int, rng *rand.Rand) {
		sc := genPrioScenario(rng, prioGen{Vers: []string{"v1", "v1", "v1s"}, Dividers: allDividers, Mode: "stop", MaxH: 48})
		c := r.prioCase(t, sc)
		if c.res == nil || !c.res.StopInjected {
			return
		}
		r.Distinct("injection_states", sc.Ver+"/"+c.res.StopState)
		r.Count("injection_state."+c.res.StopState, 1)
		r.NonTrivial(jsonString(sc))
	})
	// a divider fault whose error nobody reads from Err(), then Stop(): it must return all the same
	r.Parallel(t, "priority-stop-after-unread-divider-error", r.Cfg.pick(400, 8000), func(t *testing.T, idx int, rng *rand.Rand) {
		sc := genPrioScenario(rng, prioGen{Vers: []string{"v1", "v1s", "v1s"}, Dividers: []string{"fair", "rate", "hashw"}, Mode: "general", MaxH: 24})
		sc.Fault = &DivFault{At: 1 + rng.IntN(30), Kind: []string{"plus1", "double", "minus1", "outside"}[rng.IntN(4)]}
		sc.IgnoreErr = true
		c := r.prioCase(t, sc)
		if c.res != nil && c.res.ErrIgnored && c.res.TermWay == "divider-fault-then-stop" {
			r.Count("stops_after_an_unread_divider_error", 1)
			r.Distinct("injection_states", sc.Ver+"/stop/after-unread-divider-error")
			r.NonTrivial(jsonString(sc))
		}
	})
	joinBody := func(g joinGen) func(t *testing.T, idx int, rng *rand.Rand) {
		return func(t *testing.T, idx int, rng *rand.Rand) {
			res := r.joinCase(t, genJoinScenario(rng, g), rng)
			if res.tr == nil || res.tr.Rejected != "" || res.sc.StopKind == "" {
				return
			}
			if len(res.tr.Out) > res.sc.StopAfter {
				r.Count("join_signals_injected."+res.sc.StopKind, 1)
				where := "after-release"
				if res.sc.StopBeforeRelease {
					where = "before-release"
				}
				r.Distinct("injection_states", "v1join/"+res.sc.StopKind+"/"+where+"/"+res.sc.Consumer)
				r.NonTrivial(jsonString(res.sc))
			}
		}
	}
	// real clock: Stop / cancel / GracefulStop from a control goroutine racing with H handlers and
	// live producers (only the load-robust oracles decide here: order, duplicates, nothing
	// written to the output once the stop has completed)
	r.Parallel(t, "priority-real", r.Cfg.pick(200, 6000), func(t *testing.T, idx int, rng *rand.Rand) {
		sc := genPrioRealScenario(rng, []string{"v1", "v1s"}, false)
		if len(sc.Ctl) == 0 {
			sc.Ctl = append(sc.Ctl, PRealCtl{AfterUs: rng.IntN(3000), Op: []string{"stop", "cancel"}[rng.IntN(2)]})
		}
		res := r.prioRealCase(t, sc)
		if res.Rejected == "" && res.Stuck == "" && res.Stopped {
			r.Count("real_clock_stops", 1)
			r.NonTrivial(jsonString(sc))
		}
	})
	r.Parallel(t, "join-virtual", r.Cfg.pick(3000, 80000), joinBody(joinGen{Discs: []string{"v1join"}, Stop: 1}))
	r.Parallel(t, "join-real", r.Cfg.pick(150, 3000), joinBody(joinGen{Discs: []string{"v1join"}, Stop: 1, Real: true}))
}
