package mon

import (
	"os"
	"runtime"
	"strconv"
	"testing"
	"time"
)

// TestDebugPrio runs a few generated scenarios one after another and prints what happened
// (development aid; not registered as a check).
func TestDebugPrio(t *testing.T) {
	if os.Getenv("VERIF_DEBUG") == "" {
		t.Skip("development aid")
	}
	n, _ := strconv.Atoi(os.Getenv("VERIF_DEBUG"))
	mode := os.Getenv("VERIF_DEBUG_MODE")
	if mode == "" {
		mode = "general"
	}
	vers := allVers
	if v := os.Getenv("VERIF_DEBUG_VER"); v != "" {
		vers = []string{v}
	}
	r := newRun(t, "C01", "exploration")
	only := -1
	if v := os.Getenv("VERIF_DEBUG_ONLY"); v != "" {
		only, _ = strconv.Atoi(v)
	}
	for i := 0; i < n; i++ {
		if only >= 0 && i != only {
			continue
		}
		fam := "debug-" + mode
		if f := os.Getenv("VERIF_DEBUG_FAMILY"); f != "" {
			fam = f
		}
		rng := r.Cfg.caseRNG(fam, i)
		sc := genPrioScenario(rng, prioGen{Vers: vers, Dividers: allDividers, Mode: mode, Starve: os.Getenv("VERIF_DEBUG_STARVE") != ""})
		if os.Getenv("VERIF_DEBUG_FILTER") == "A" {
			hasA := false
			for _, op := range sc.Script {
				if op.K == "A" {
					hasA = true
				}
			}
			if !hasA || sc.H < 30 {
				continue
			}
		}
		if os.Getenv("VERIF_DEBUG_FILTER") == "longS" {
			has := false
			for _, op := range sc.Script {
				if op.K == "S" && op.D > 100000 {
					has = true
				}
			}
			if !has {
				continue
			}
		}
		rep := 1
		if v := os.Getenv("VERIF_DEBUG_REPEAT"); v != "" {
			rep, _ = strconv.Atoi(v)
		}
		t0 := time.Now()
		var c prioCaseResult
		for k := 0; k < rep; k++ {
			c = r.prioCase(t, sc)
			if c.res != nil && len(c.res.Findings) > 0 {
				t.Logf("repeat %d fired", k)
				break
			}
		}
		el := time.Since(t0)
		if c.res == nil {
			t.Logf("#%d nil result", i)
			continue
		}
		if os.Getenv("VERIF_DEBUG_QUIET") != "" && len(c.res.Findings) == 0 {
			continue
		}
		t.Logf("#%d %s H=%d inputs=%v ops=%d -> %.1fms recv=%d/%d maxheld=%d term=%s rej=%q findings=%v aborted=%q", i, sc.class(), sc.H, sc.Inputs, len(sc.Script), float64(el.Microseconds())/1000, c.res.Received, c.res.Written, c.res.MaxHeld, c.res.TermWay, c.res.Rejected, c.res.Findings, c.res.Aborted)
		if len(c.res.Findings) > 0 || el > 20*time.Second || os.Getenv("VERIF_DEBUG_LOG") != "" {
			t.Logf("scenario: %s", jsonString(sc))
			for _, l := range c.res.Log {
				t.Log(l)
			}
		}
	}
}

// TestDebugReplay runs the scenario of a witness file once and prints the whole event log (development aid).
func TestDebugReplay(t *testing.T) {
	f := os.Getenv("VERIF_DEBUG_FILE")
	if f == "" {
		t.Skip("development aid")
	}
	var doc struct {
		Witness struct{ Scenario PrioScenario }
	}
	if err := readJSON(f, &doc); err != nil {
		t.Fatal(err)
	}
	r := newRun(t, "C01", "exploration")
	c := r.prioCase(t, doc.Witness.Scenario)
	for _, l := range c.res.Log {
		t.Log(l)
	}
	t.Logf("findings=%v", c.res.Findings)
}

// TestDebugLeak counts the goroutines that generated scenarios of one mode leave behind (development aid).
func TestDebugLeak(t *testing.T) {
	mode := os.Getenv("VERIF_DEBUG_LEAK")
	if mode == "" {
		t.Skip("development aid")
	}
	r := newRun(t, "C07", "exploration")
	before := runtime.NumGoroutine()
	n := 600
	t0 := time.Now()
	for i := 0; i < n; i++ {
		rng := r.Cfg.caseRNG("leak-"+mode, i)
		g := prioGen{Vers: allVers, Dividers: allDividers, Mode: mode}
		if mode == "starve-terminate" {
			g = prioGen{Vers: []string{"v1", "v1", "v1s"}, Dividers: []string{"rate", "rate", "fair", "hashw", "toprem"}, Mode: "terminate", Starve: true}
		}
		if mode == "addrm" || mode == "starvedrm" {
			g.Vers = []string{"v1"}
		}
		if mode == "starve-general" {
			g = prioGen{Vers: []string{"v1", "v1", "v1s"}, Dividers: allDividers, Mode: "general", Starve: true}
		}
		sc := genPrioScenario(rng, g)
		b := runtime.NumGoroutine()
		r.prioCase(t, sc)
		if a := runtime.NumGoroutine(); a > b+0 && os.Getenv("VERIF_DEBUG_LEAK_V") != "" {
			t.Logf("#%d +%d goroutines: %s never_ends=%v starved=%v", i, a-b, sc.class(), sc.NeverEnds, sc.Starved)
		}
	}
	time.Sleep(200 * time.Millisecond)
	t.Logf("mode %s: %d scenarios in %s, goroutines %d -> %d", mode, n, time.Since(t0), before, runtime.NumGoroutine())
}

// TestDebugFind regenerates the scenarios of one family and replays the one whose JSON starts with a prefix (development aid).
func TestDebugFind(t *testing.T) {
	prefix := os.Getenv("VERIF_DEBUG_PREFIX")
	if prefix == "" {
		t.Skip("development aid")
	}
	r := newRun(t, "C06", "exploration")
	fam := os.Getenv("VERIF_DEBUG_FAMILY")
	n, _ := strconv.Atoi(os.Getenv("VERIF_DEBUG"))
	for i := 0; i < n; i++ {
		rng := r.Cfg.caseRNG(fam, i)
		sc := genPrioScenario(rng, prioGen{Vers: []string{"v1"}, Dividers: []string{"fair", "rate", "rate"}, Mode: "addrm"})
		js := jsonString(sc)
		if len(js) >= len(prefix) && js[:len(prefix)] == prefix {
			t.Logf("found at %d: %s", i, js)
			os.WriteFile("/tmp/c06w.json", []byte(`{"witness":{"scenario":`+js+`}}`), 0o644)
			reps := 30
			if v, err := strconv.Atoi(os.Getenv("VERIF_DEBUG_REPEAT")); err == nil {
				reps = v
			}
			for k := 0; k < reps; k++ {
				t0 := time.Now()
				c := r.prioCase(t, sc)
				if el := time.Since(t0); el > 200*time.Millisecond || len(c.res.Findings) > 0 || k < 2 {
					t.Logf("run %d: %.1fms findings=%v aborted=%q term=%s", k, float64(el.Microseconds())/1000, c.res.Findings, c.res.Aborted, c.res.TermWay)
				}
			}
			return
		}
	}
	t.Log("not found")
}
