package mon

// C05 on the real clock: saturation of inputs with a SMALL buffer (capacity 1..3, or large).
//
// The fake clock cannot show what depends on real timer ticks racing with ready data (the
// 1 ns interrupt ticker of the reader for unbuffered inputs only ever becomes ready when
// virtual time advances, i.e. when the scheduler goroutine is blocked). Here the clock is real.
// Saturation must nevertheless be a fact and not a hope, so it does not rely on writers
// being fast: every input gets W one-shot sender goroutines, all of them verifiably parked in
// their send (goroutine dump: state "chan send", created by this scenario's goroutine) before
// the discipline is created. A receive from a full buffered channel with a parked sender
// refills the buffer atomically, so the channel cannot be observed empty until W items have
// been taken from it - and the oracle is disarmed long before that (after T deliveries in
// total, W = T + H + cap(output) + 8).
//
// Oracle (load-robust, rule 2): per priority, received - release-started <= share, checked
// after every receive while armed. Full occupation is not judged here (no quiescent points).

import (
	"context"
	"fmt"
	"math/rand/v2"
	"runtime"
	"strconv"
	"strings"
	"sync"
	"sync/atomic"
	"time"

	v1prio "github.com/akramarenkov/cqos/priority"
	v2prio "github.com/akramarenkov/cqos/v2/priority"
	"github.com/akramarenkov/cqos/v2/priority/divider"
)

type SatRealScenario struct {
	Ver        string       `json:"version"` // v2 | v1
	Divider    string       `json:"divider"`
	DivSeed    uint64       `json:"divider_seed,omitempty"`
	H          uint         `json:"handlers"`
	Inputs     []PInputSpec `json:"inputs"` // Cap = buffer, Writers = parked one-shot senders
	HoldUs     int          `json:"max_hold_us"`
	OutCap     int          `json:"v1_output_capacity,omitempty"`
	FbCap      int          `json:"v1_feedback_capacity,omitempty"`
	Deliveries int          `json:"deliveries_while_armed"`
	Seed       uint64       `json:"seed"`
}

type satRealResult struct {
	Rejected  string
	Findings  []pFinding
	Stuck     string
	Received  int64
	ArmedRecv int64
	Parked    int
	MaxHeld   int64
}

func myGoroutineID() int64 {
	buf := make([]byte, 64)
	n := runtime.Stack(buf, false)
	f := strings.Fields(string(buf[:n]))
	if len(f) < 2 {
		return -1
	}
	id, _ := strconv.ParseInt(f[1], 10, 64)
	return id
}

func runPrioSatReal(sc SatRealScenario) *satRealResult {
	res := &satRealResult{}
	var mu sync.Mutex
	fail := func(prop, key, format string, a ...any) {
		mu.Lock()
		if len(res.Findings) < 8 {
			res.Findings = append(res.Findings, pFinding{prop, key, fmt.Sprintf(format, a...)})
		}
		mu.Unlock()
	}
	div := customDivider(sc.Divider, sc.DivSeed)
	var prios []uint
	for _, in := range sc.Inputs {
		prios = append(prios, in.P)
	}
	shares := sharesOf(div, prios, sc.H)

	abort := make(chan struct{})
	var swg sync.WaitGroup
	inputs := map[uint]<-chan PItem{}
	chans := map[uint]chan PItem{}
	want := 0
	me := myGoroutineID()
	for i, in := range sc.Inputs {
		ch := make(chan PItem, in.Cap)
		for k := 0; k < in.Cap; k++ {
			ch <- PItem{P: in.P, Ch: i, Seq: k}
		}
		chans[in.P] = ch
		inputs[in.P] = ch
		for k := 0; k < in.Writers; k++ {
			swg.Add(1)
			want++
			go func(seq int) { // one-shot sender: parks in the send until the discipline takes its item
				defer swg.Done()
				select {
				case ch <- PItem{P: in.P, Ch: i, Seq: seq}:
				case <-abort:
				}
			}(in.Cap + k)
		}
	}
	// every sender must be parked before the discipline exists
	suffix := " in goroutine " + strconv.FormatInt(me, 10)
	deadline := time.Now().Add(30 * time.Second)
	for {
		n := 0
		for _, g := range parseStacks(allStacks()) {
			if strings.HasSuffix(g.CreatedBy, suffix) && strings.Contains(g.CreatedBy, "runPrioSatReal") && strings.HasPrefix(g.State, "select") {
				n++
			}
		}
		if n == want {
			res.Parked = n
			break
		}
		if time.Now().After(deadline) {
			close(abort)
			res.Stuck = fmt.Sprintf("only %d of %d senders were parked after 30s", n, want)
			return res
		}
		time.Sleep(300 * time.Microsecond)
	}

	var armed atomic.Bool
	armed.Store(true)
	var delivered, armedRecv, heldAll, maxHeld atomic.Int64
	heldBy := map[uint]*atomic.Int64{}
	for _, p := range prios {
		heldBy[p] = &atomic.Int64{}
	}
	var endOnce sync.Once
	ended := make(chan struct{})
	onItem := func(p uint, r *rand.Rand) {
		c := heldBy[p].Add(1)
		a := heldAll.Add(1)
		for {
			m := maxHeld.Load()
			if a <= m || maxHeld.CompareAndSwap(m, a) {
				break
			}
		}
		if a > int64(sc.H) {
			fail("C01", "capacity-real", "%d items handed out and not released at once, HandlersQuantity is %d (real clock, saturated small buffers, %s)", a, sc.H, sc.Ver)
		}
		if armed.Load() {
			armedRecv.Add(1)
			if uint(c) > shares[p] {
				fail("C05", "share-exceeded-real", "real clock, every input kept non-empty by parked senders: priority %d holds %d items, its share of %d handlers is %d (shares %v)", p, c, sc.H, shares[p], shares)
			}
		}
		if delivered.Add(1) >= int64(sc.Deliveries) {
			endOnce.Do(func() {
				armed.Store(false) // before anything that lets an input run empty
				close(ended)
			})
		}
		if sc.HoldUs > 0 {
			if d := r.IntN(sc.HoldUs + 1); d > 0 {
				time.Sleep(time.Duration(d) * time.Microsecond)
			}
		}
		heldAll.Add(-1)
		heldBy[p].Add(-1)
	}

	done := make(chan struct{})
	var hwg sync.WaitGroup
	var errCh <-chan error
	var graceful func()
	ctx, cancel := context.WithCancel(context.Background())
	defer cancel()
	switch sc.Ver {
	case "v2":
		d, err := v2prio.New(v2prio.Opts[PItem]{Divider: divider.Divider(div), HandlersQuantity: sc.H, Inputs: inputs})
		if err != nil {
			res.Rejected = err.Error()
			close(abort)
			return res
		}
		errCh = d.Err()
		for i := 0; i < int(sc.H); i++ {
			hwg.Add(1)
			go func(seed uint64) {
				defer hwg.Done()
				r := rand.New(rand.NewPCG(seed, 9))
				for x := range d.Output() {
					onItem(x.Priority, r)
					d.Release(x.Priority)
				}
			}(sc.Seed + uint64(i))
		}
	case "v1":
		out := make(chan v1prio.Prioritized[PItem], sc.OutCap)
		fb := make(chan uint, sc.FbCap)
		d, err := v1prio.New(v1prio.Opts[PItem]{Ctx: ctx, Divider: asV1(div), Feedback: fb, HandlersQuantity: sc.H, Inputs: inputs, Output: out})
		if err != nil {
			res.Rejected = err.Error()
			close(abort)
			return res
		}
		errCh = d.Err()
		graceful = d.GracefulStop
		for i := 0; i < int(sc.H); i++ {
			hwg.Add(1)
			go func(seed uint64) {
				defer hwg.Done()
				r := rand.New(rand.NewPCG(seed, 9))
				for {
					select {
					case x := <-out:
						onItem(x.Priority, r)
						select {
						case fb <- x.Priority:
						case <-done:
							return
						}
					case <-done:
						return
					}
				}
			}(sc.Seed + uint64(i))
		}
	}

	// end game: disarm (done by the handler that saw the T-th delivery), let the senders go,
	// close the inputs, terminate
	select {
	case <-ended:
	case <-time.After(60 * time.Second):
		armed.Store(false)
		res.Stuck = fmt.Sprintf("only %d of %d deliveries within 60s of real time", delivered.Load(), sc.Deliveries)
	}
	close(abort)
	swg.Wait()
	for _, ch := range chans {
		close(ch)
	}
	if graceful != nil {
		go graceful()
	}
	timeout := time.After(60 * time.Second)
wait:
	for {
		select {
		case _, ok := <-errCh:
			if !ok {
				break wait
			}
		case <-timeout:
			if res.Stuck == "" {
				res.Stuck = "the discipline did not terminate within 60s after its inputs were closed"
			}
			cancel()
			break wait
		}
	}
	close(done)
	hw := make(chan struct{})
	go func() { hwg.Wait(); close(hw) }()
	select {
	case <-hw:
	case <-time.After(20 * time.Second):
		if res.Stuck == "" {
			res.Stuck = "handler goroutines of the harness did not end"
		}
	}
	res.Received = delivered.Load()
	res.ArmedRecv = armedRecv.Load()
	res.MaxHeld = maxHeld.Load()
	return res
}

func genSatRealScenario(rng *rand.Rand) SatRealScenario {
	g := genPrioScenario(rng, prioGen{Vers: []string{"v2", "v2", "v1"}, Dividers: allDividers, Mode: "saturate", MaxH: 12})
	for g.H > 12 || len(g.Inputs) == 0 {
		g = genPrioScenario(rng, prioGen{Vers: []string{"v2", "v2", "v1"}, Dividers: allDividers, Mode: "saturate", MaxH: 12})
	}
	sc := SatRealScenario{Ver: g.Ver, Divider: g.Divider, DivSeed: g.DivSeed, H: g.H, Seed: rng.Uint64()}
	H := int(sc.H)
	sc.HoldUs = []int{0, 5, 50, 300}[rng.IntN(4)]
	sc.OutCap = []int{0, 1, H}[rng.IntN(3)]
	sc.FbCap = []int{0, 1, H}[rng.IntN(3)]
	sc.Deliveries = 4*H + rng.IntN(8*H+1)
	outCap := sc.OutCap
	if sc.Ver == "v2" {
		outCap = H + 12 // above what the v2 discipline may buffer itself (max(H/k, number of inputs))
	}
	w := sc.Deliveries + H + outCap + 8
	for _, in := range g.Inputs {
		c := []int{1, 1, 2, 3, w}[rng.IntN(5)]
		sc.Inputs = append(sc.Inputs, PInputSpec{P: in.P, Cap: c, Prefill: c, Writers: w})
	}
	return sc
}
