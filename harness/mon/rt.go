package mon

// Common runtime of the monitors: configuration, deterministic per-case PRNGs, the
// violation / evidence recorder, the parallel case runner, the virtual-time bubble runner
// with its real-time watchdog, and the goroutine census.

import (
	"encoding/json"
	"fmt"
	"hash/fnv"
	"math/rand/v2"
	"os"
	"path/filepath"
	"regexp"
	"runtime"
	"sort"
	"strconv"
	"strings"
	"sync"
	"sync/atomic"
	"testing"
	"testing/synctest"
	"time"
)

const modulePath = "github.com/akramarenkov/cqos"

// ---------------------------------------------------------------------------------------
// configuration

type Config struct {
	Tier      string
	Seed      int64
	VerifDir  string
	Evidence  string // evidence file to (re)write
	Result    string // jsonl result file read by the driver
	ReplayDir string
	Replay    string // replay file to re-run, if any
	Workers   int
	Part      string // multi-part checks: which part this process runs ("" = all)
}

func loadConfig(prop string) Config {
	cfg := Config{Tier: "quick", Seed: 1, VerifDir: "/verif"}
	if v := os.Getenv("VERIF_TIER"); v == "thorough" {
		cfg.Tier = v
	}
	if v := os.Getenv("VERIF_SEED"); v != "" {
		if n, err := strconv.ParseInt(v, 10, 64); err == nil {
			cfg.Seed = n
		}
	}
	if v := os.Getenv("VERIF_DIR"); v != "" {
		cfg.VerifDir = v
	}
	cfg.Evidence = os.Getenv("VERIF_EVIDENCE")
	if cfg.Evidence == "" {
		cfg.Evidence = filepath.Join(cfg.VerifDir, "evidence", prop+".json")
	}
	cfg.Result = os.Getenv("VERIF_RESULT")
	if cfg.Result == "" {
		cfg.Result = filepath.Join(cfg.VerifDir, "logs", prop+"."+cfg.Tier+".result.jsonl")
	}
	cfg.ReplayDir = filepath.Join(cfg.VerifDir, "replays")
	cfg.Replay = os.Getenv("VERIF_REPLAY")
	cfg.Part = os.Getenv("VERIF_PART")
	cfg.Workers = runtime.GOMAXPROCS(0)
	if v := os.Getenv("VERIF_WORKERS"); v != "" {
		if n, err := strconv.Atoi(v); err == nil && n > 0 {
			cfg.Workers = n
		}
	}
	return cfg
}

func (c Config) thorough() bool { return c.Tier == "thorough" }

// pick returns q for the quick tier and th for the thorough tier.
func (c Config) pick(q, th int) int {
	if c.thorough() {
		return th
	}
	return q
}

// caseRNG returns the PRNG of case idx of the named family: it depends only on
// (VERIF_SEED, family, idx), so the case list is fixed by (tier, seed).
func (c Config) caseRNG(family string, idx int) *rand.Rand {
	h := fnv.New64a()
	fmt.Fprintf(h, "%d/%s/%d", c.Seed, family, idx)
	s := h.Sum64()
	return rand.New(rand.NewPCG(s, s^0x9e3779b97f4a7c15))
}

// ---------------------------------------------------------------------------------------
// recorder

type violationRec struct {
	Type     string `json:"type"`
	Property string `json:"property"`
	Key      string `json:"key"`
	Msg      string `json:"msg"`
	Replay   string `json:"replay"`
}

// Run collects what one check observed and decides its verdict.
type Run struct {
	Prop  string
	Level string
	Cfg   Config

	start time.Time

	evaluations atomic.Int64
	stopped     atomic.Bool

	mu         sync.Mutex
	nontrivial map[uint64]struct{}
	samples    []any
	counters   map[string]int64
	maxima     map[string]int64
	minima     map[string]int64
	sets       map[string]map[string]struct{}
	violations []violationRec
	foreign    map[string]int64
	incon      []string
	notes      []string
	nviol      int
	resultF    *os.File

	CensusEvery int64 // join / limit scenarios: take the goroutine census in one of N scenarios (C19: every one)
	censusN     atomic.Int64

	Rule        string
	Assumptions []string
	Floor       int // minimum distinct_nontrivial for a "held" verdict
	MaxSamples  int
	Exhaustive  bool
	Extra       map[string]any
}

const maxViolationsPerRun = 12

// the set of distinct non-trivial fingerprints is capped (the count is then a lower bound)
const maxNonTrivial = 400000

func newRun(t *testing.T, prop, level string) *Run {
	cfg := loadConfig(prop)
	r := &Run{
		Prop: prop, Level: level, Cfg: cfg, start: time.Now(),
		nontrivial: map[uint64]struct{}{}, counters: map[string]int64{}, maxima: map[string]int64{},
		minima: map[string]int64{}, sets: map[string]map[string]struct{}{}, foreign: map[string]int64{},
		Floor: 2, MaxSamples: 4, Extra: map[string]any{}, CensusEvery: 25,
	}
	for _, d := range []string{filepath.Dir(cfg.Evidence), filepath.Dir(cfg.Result), cfg.ReplayDir} {
		if err := os.MkdirAll(d, 0o755); err != nil {
			t.Fatalf("mkdir %s: %v", d, err)
		}
	}
	f, err := os.Create(cfg.Result)
	if err != nil {
		t.Fatalf("create result file: %v", err)
	}
	r.resultF = f
	r.writeResult(map[string]any{"type": "start", "property": prop, "tier": cfg.Tier, "seed": cfg.Seed, "pid": os.Getpid()})
	return r
}

func (r *Run) writeResult(v any) {
	b, _ := json.Marshal(v)
	r.resultF.Write(append(b, '\n'))
	r.resultF.Sync()
}

// wantCensus rations the stop-the-world stack dumps outside the C19 check.
func (r *Run) wantCensus() bool {
	n := r.CensusEvery
	if n <= 1 {
		return true
	}
	return r.censusN.Add(1)%n == 0
}

// Stopped tells the workers to stop generating cases (too many violations already).
func (r *Run) Stopped() bool { return r.stopped.Load() }

func (r *Run) Eval(n int64) { r.evaluations.Add(n) }

func (r *Run) Count(name string, n int64) {
	r.mu.Lock()
	r.counters[name] += n
	r.mu.Unlock()
}

func (r *Run) Max(name string, v int64) {
	r.mu.Lock()
	if cur, ok := r.maxima[name]; !ok || v > cur {
		r.maxima[name] = v
	}
	r.mu.Unlock()
}

func (r *Run) Min(name string, v int64) {
	r.mu.Lock()
	if cur, ok := r.minima[name]; !ok || v < cur {
		r.minima[name] = v
	}
	r.mu.Unlock()
}

// Distinct records a member of a named set (distinct states / vectors / classes seen).
func (r *Run) Distinct(set, member string) {
	r.mu.Lock()
	m := r.sets[set]
	if m == nil {
		m = map[string]struct{}{}
		r.sets[set] = m
	}
	if len(m) < 200000 {
		m[member] = struct{}{}
	}
	r.mu.Unlock()
}

// NonTrivial records the fingerprint of a case in which the monitored situation occurred.
func (r *Run) NonTrivial(fingerprint string) {
	h := fnv.New64a()
	h.Write([]byte(fingerprint))
	k := h.Sum64()
	r.mu.Lock()
	if len(r.nontrivial) < maxNonTrivial {
		r.nontrivial[k] = struct{}{}
	}
	r.mu.Unlock()
}

// NonTrivialKey is NonTrivial for an already hashed fingerprint.
func (r *Run) NonTrivialKey(k uint64) {
	r.mu.Lock()
	if len(r.nontrivial) < maxNonTrivial {
		r.nontrivial[k] = struct{}{}
	}
	r.mu.Unlock()
}

func (r *Run) Sample(v any) {
	r.mu.Lock()
	if len(r.samples) < r.MaxSamples {
		r.samples = append(r.samples, v)
	}
	r.mu.Unlock()
}

func (r *Run) WantSample() bool {
	r.mu.Lock()
	defer r.mu.Unlock()
	return len(r.samples) < r.MaxSamples
}

func (r *Run) Note(s string) {
	r.mu.Lock()
	if len(r.notes) < 50 {
		r.notes = append(r.notes, s)
	}
	r.mu.Unlock()
}

func (r *Run) Inconclusive(msg string) {
	r.mu.Lock()
	if len(r.incon) < 20 {
		r.incon = append(r.incon, msg)
	}
	r.mu.Unlock()
	r.writeResult(map[string]any{"type": "inconclusive", "property": r.Prop, "msg": msg})
}

// Violation records a violation of property prop. If prop is not the property of this run
// it is only counted (a foreign observation): each check reports its own property.
// key is the stable identification used for known-findings matching.
func (r *Run) Violation(prop, key, msg string, witness any) {
	if prop != r.Prop {
		r.mu.Lock()
		r.foreign[prop]++
		first := r.foreign[prop] == 1
		r.mu.Unlock()
		if first {
			// the witness of the first foreign observation is kept too: it belongs to another
			// property's check, but it may point at a weakness of that check's own workload
			path := filepath.Join(r.Cfg.ReplayDir, fmt.Sprintf("%s-saw-%s-%s-%d.json", r.Prop, prop, r.Cfg.Tier, r.Cfg.Seed))
			doc := map[string]any{"property": prop, "observed_while_running": r.Prop, "key": key, "msg": msg, "tier": r.Cfg.Tier, "seed": r.Cfg.Seed, "witness": witness}
			if b, err := json.MarshalIndent(doc, "", " "); err == nil {
				os.WriteFile(path, b, 0o644)
			}
			r.writeResult(map[string]any{"type": "foreign", "property": prop, "key": key, "msg": msg + " (witness: " + path + ")"})
		}
		return
	}
	r.mu.Lock()
	r.nviol++
	n := r.nviol
	r.mu.Unlock()
	if n > maxViolationsPerRun {
		r.stopped.Store(true)
		return
	}
	path := filepath.Join(r.Cfg.ReplayDir, fmt.Sprintf("%s-%s-%d-%d.json", r.Prop, r.Cfg.Tier, r.Cfg.Seed, n))
	doc := map[string]any{"property": prop, "key": key, "msg": msg, "tier": r.Cfg.Tier, "seed": r.Cfg.Seed, "witness": witness}
	b, err := json.MarshalIndent(doc, "", " ")
	if err != nil {
		b = []byte(fmt.Sprintf("{\"property\":%q,\"key\":%q,\"msg\":%q}", prop, key, msg))
	}
	os.WriteFile(path, b, 0o644)
	rec := violationRec{Type: "violation", Property: prop, Key: key, Msg: msg, Replay: path}
	r.mu.Lock()
	r.violations = append(r.violations, rec)
	r.mu.Unlock()
	r.writeResult(rec)
	if n >= maxViolationsPerRun {
		r.stopped.Store(true)
	}
}

func (r *Run) ViolationCount() int {
	r.mu.Lock()
	defer r.mu.Unlock()
	return r.nviol
}

// Finish writes the evidence file and the final verdict record.
func (r *Run) Finish(t *testing.T) {
	r.mu.Lock()
	defer r.mu.Unlock()
	distinct := len(r.nontrivial)
	cov := map[string]any{
		"evaluations":         r.evaluations.Load(),
		"distinct_nontrivial": distinct,
		"rule":                r.Rule,
		"samples":             r.samples,
	}
	if r.Exhaustive {
		cov["exhaustive"] = true
	}
	if len(r.counters) > 0 {
		cov["observed_events"] = r.counters
	}
	if len(r.maxima) > 0 {
		cov["observed_maxima"] = r.maxima
	}
	if len(r.minima) > 0 {
		cov["observed_minima"] = r.minima
	}
	if len(r.sets) > 0 {
		ds := map[string]int{}
		ex := map[string][]string{}
		for k, m := range r.sets {
			ds[k] = len(m)
			var names []string
			for s := range m {
				names = append(names, s)
			}
			sort.Strings(names)
			if len(names) > 12 {
				names = names[:12]
			}
			ex[k] = names
		}
		cov["distinct_observed"] = ds
		cov["distinct_observed_examples"] = ex
	}
	if len(r.foreign) > 0 {
		cov["foreign_property_observations"] = r.foreign
	}
	if len(r.notes) > 0 {
		cov["notes"] = r.notes
	}
	if len(r.incon) > 0 {
		cov["inconclusive"] = r.incon
	}
	for k, v := range r.Extra {
		cov[k] = v
	}
	if len(r.samples) == 0 {
		cov["samples"] = []any{}
	}
	ev := map[string]any{
		"property_id": r.Prop,
		"tier":        r.Cfg.Tier,
		"seed":        r.Cfg.Seed,
		"level":       r.Level,
		"coverage":    cov,
		"assumptions": r.Assumptions,
		"wall_s":      time.Since(r.start).Seconds(),
		"violations":  r.nviol,
	}
	b, err := json.MarshalIndent(ev, "", " ")
	if err != nil {
		t.Fatalf("evidence marshal: %v", err)
	}
	tmp := r.Cfg.Evidence + ".tmp"
	if err := os.WriteFile(tmp, b, 0o644); err != nil {
		t.Fatalf("evidence write: %v", err)
	}
	os.Rename(tmp, r.Cfg.Evidence)

	verdict := "held"
	switch {
	case r.nviol > 0:
		verdict = "violated"
	case len(r.incon) > 0:
		verdict = "inconclusive"
	case distinct < r.Floor:
		verdict = "inconclusive"
		r.writeResultLocked(map[string]any{"type": "inconclusive", "property": r.Prop,
			"msg": fmt.Sprintf("only %d distinct non-trivial cases observed (floor %d)", distinct, r.Floor)})
	}
	r.writeResultLocked(map[string]any{"type": "done", "property": r.Prop, "verdict": verdict,
		"evaluations": r.evaluations.Load(), "distinct_nontrivial": distinct, "violations": r.nviol,
		"wall_s": time.Since(r.start).Seconds()})
	r.resultF.Close()
	t.Logf("%s %s seed=%d verdict=%s evaluations=%d distinct_nontrivial=%d violations=%d foreign=%v",
		r.Prop, r.Cfg.Tier, r.Cfg.Seed, verdict, r.evaluations.Load(), distinct, r.nviol, r.foreign)
}

func (r *Run) writeResultLocked(v any) {
	b, _ := json.Marshal(v)
	r.resultF.Write(append(b, '\n'))
	r.resultF.Sync()
}

// ---------------------------------------------------------------------------------------
// parallel case runner

// Parallel runs cases 0..n-1 of family on the configured number of workers. Each worker is
// a parallel subtest (its own *testing.T, needed by synctest.Test).
func (r *Run) Parallel(t *testing.T, family string, n int, fn func(t *testing.T, idx int, rng *rand.Rand)) {
	var next atomic.Int64
	workers := r.Cfg.Workers
	if workers > n {
		workers = n
	}
	if workers < 1 {
		workers = 1
	}
	t.Run(family, func(t *testing.T) {
		for w := 0; w < workers; w++ {
			t.Run(fmt.Sprintf("w%d", w), func(t *testing.T) {
				t.Parallel()
				for !r.Stopped() {
					idx := int(next.Add(1) - 1)
					if idx >= n {
						return
					}
					fn(t, idx, r.Cfg.caseRNG(family, idx))
				}
			})
		}
	})
}

// ---------------------------------------------------------------------------------------
// bubbles

// phaseInfo is what the harness is currently waiting for; the watchdog reads it.
type phaseInfo struct {
	Name     string // e.g. "await-stop"
	Property string // property violated if the library spins in this phase
}

type bubbleCtl struct {
	progress atomic.Int64 // bumped by the stepper whenever it gets anywhere
	phase    atomic.Pointer[phaseInfo]
	bubbleID atomic.Int64
	descr    atomic.Pointer[string] // scenario description for the watchdog record
	finished atomic.Bool            // runBubble has returned from the bubble
	rearmed  atomic.Int64           // times the watchdog gave a slow but advancing bubble more time
}

func (b *bubbleCtl) SetPhase(name, prop string) {
	b.phase.Store(&phaseInfo{name, prop})
	b.progress.Add(1)
}

type bubbleOutcome struct {
	Deadlock string // synctest deadlock reason, if the bubble ended in one
	Stacks   string // goroutines of the bubble at that moment
}

var bubbleHeaderRe = regexp.MustCompile(`^goroutine (\d+) \[([^\]]*)\]:`)

// currentBubbleID parses the bubble number from the calling goroutine's stack header.
func currentBubbleID() int64 {
	buf := make([]byte, 256)
	n := runtime.Stack(buf, false)
	line := string(buf[:n])
	if i := strings.IndexByte(line, '\n'); i >= 0 {
		line = line[:i]
	}
	if i := strings.Index(line, "synctest bubble "); i >= 0 {
		rest := line[i+len("synctest bubble "):]
		j := 0
		for j < len(rest) && rest[j] >= '0' && rest[j] <= '9' {
			j++
		}
		id, _ := strconv.ParseInt(rest[:j], 10, 64)
		return id
	}
	return 0
}

// runBubble runs f inside a synctest bubble under a real-time watchdog. A synctest deadlock
// (blocked goroutines left behind) is returned, not propagated. The watchdog fires only when
// the bubble makes no end in real time, which a correct library never causes with these
// workloads: it classifies the situation (module goroutine spinning = violation of the
// property named by the current phase, otherwise inconclusive), flushes and exits the process.
func (r *Run) runBubble(t *testing.T, wd time.Duration, descr string, f func(ctl *bubbleCtl)) (out bubbleOutcome) {
	ctl := &bubbleCtl{}
	ctl.SetPhase("start", "")
	ctl.descr.Store(&descr)
	timer := time.AfterFunc(wd, func() { r.watchdogFired(ctl, wd) })
	defer timer.Stop()
	// The bubble is entered from a goroutine of its own: when the race detector has reported
	// something inside the bubble, synctest.Test ends with t.FailNow (runtime.Goexit), which
	// must not take the worker with it.
	done := make(chan struct{})
	var repanic any
	go func() {
		defer close(done)
		defer func() {
			if e := recover(); e != nil {
				if err, ok := e.(error); ok && strings.HasPrefix(err.Error(), "deadlock:") {
					out.Deadlock = err.Error()
					out.Stacks = bubbleStacks(ctl.bubbleID.Load())
					return
				}
				repanic = e
			}
		}()
		synctest.Test(t, func(t *testing.T) {
			ctl.bubbleID.Store(currentBubbleID())
			f(ctl)
		})
	}()
	<-done
	ctl.finished.Store(true)
	if repanic != nil {
		panic(repanic)
	}
	return out
}

func allStacks() string {
	buf := make([]byte, 1<<20)
	for {
		n := runtime.Stack(buf, true)
		if n < len(buf) {
			return string(buf[:n])
		}
		buf = make([]byte, 2*len(buf))
	}
}

type gInfo struct {
	ID        int64
	State     string
	Bubble    int64
	CreatedBy string
	Top       string // top function
	Text      string
}

func parseStacks(s string) []gInfo {
	var out []gInfo
	for _, blk := range strings.Split(s, "\n\n") {
		blk = strings.TrimSpace(blk)
		if blk == "" {
			continue
		}
		lines := strings.Split(blk, "\n")
		m := bubbleHeaderRe.FindStringSubmatch(lines[0])
		if m == nil {
			continue
		}
		g := gInfo{Text: blk}
		g.ID, _ = strconv.ParseInt(m[1], 10, 64)
		g.State = m[2]
		if i := strings.Index(m[2], "synctest bubble "); i >= 0 {
			rest := m[2][i+len("synctest bubble "):]
			j := 0
			for j < len(rest) && rest[j] >= '0' && rest[j] <= '9' {
				j++
			}
			g.Bubble, _ = strconv.ParseInt(rest[:j], 10, 64)
		}
		if len(lines) > 1 {
			g.Top = strings.TrimSpace(lines[1])
		}
		for _, l := range lines {
			if strings.HasPrefix(l, "created by ") {
				g.CreatedBy = strings.TrimPrefix(l, "created by ")
			}
		}
		out = append(out, g)
	}
	return out
}

func bubbleStacks(id int64) string {
	var sb strings.Builder
	for _, g := range parseStacks(allStacks()) {
		if g.Bubble == id {
			sb.WriteString(g.Text)
			sb.WriteString("\n\n")
		}
	}
	return sb.String()
}

// moduleCreated reports whether the goroutine was started by a function of the library
// (its "created by" line), which is how a discipline's own goroutines are recognised;
// harness goroutines that merely are inside Release() have module frames but are not counted.
func (g gInfo) moduleCreated() bool { return strings.HasPrefix(g.CreatedBy, modulePath) }

// censusBubble lists the goroutines of bubble id that were started by the library.
func censusBubble(id int64) []gInfo {
	var out []gInfo
	for _, g := range parseStacks(allStacks()) {
		if g.Bubble == id && g.moduleCreated() {
			out = append(out, g)
		}
	}
	return out
}

// bubbleCensus is called by the stepper inside its bubble after the discipline terminated:
// everything is allowed to run to a blocked state, a virtual microsecond passes, and then no
// goroutine started by the library may exist in the bubble (it would be blocked or sleeping
// forever: a state-based verdict without a deadline). Returns the stacks of leftovers.
func bubbleCensus(ctl *bubbleCtl) string {
	synctest.Wait()
	time.Sleep(time.Microsecond)
	synctest.Wait()
	var sb strings.Builder
	for _, g := range censusBubble(ctl.bubbleID.Load()) {
		sb.WriteString(g.Text + "\n\n")
	}
	return sb.String()
}

// processCensus is the real-clock counterpart, taken between batches when no scenario is
// running: goroutines started by the library outside any bubble must be gone; those still
// there after a grace period, in three consecutive samples, are reported.
func (r *Run) processCensus(family string) {
	deadline := time.Now().Add(10 * time.Second)
	stable := 0
	var last []gInfo
	for time.Now().Before(deadline) {
		last = censusProcess()
		if len(last) == 0 {
			r.Count("process_censuses_clean", 1)
			return
		}
		time.Sleep(100 * time.Millisecond)
	}
	for i := 0; i < 3; i++ {
		if len(censusProcess()) > 0 {
			stable++
		}
		time.Sleep(200 * time.Millisecond)
	}
	if stable == 3 {
		var sb strings.Builder
		for _, g := range last {
			sb.WriteString(g.Text + "\n\n")
		}
		r.Violation("C19", "leak-real:"+family, fmt.Sprintf("%d goroutine(s) started by the library are still alive 10s after every real-clock scenario of family %s had terminated: %s", len(last), family, firstLines(sb.String(), 12)),
			map[string]any{"family": family, "stacks": sb.String()})
	}
}

// censusProcess lists all goroutines of the process started by the library that are not in
// any bubble (used by the real-time environment between batches).
func censusProcess() []gInfo {
	var out []gInfo
	for _, g := range parseStacks(allStacks()) {
		if g.Bubble == 0 && g.moduleCreated() {
			out = append(out, g)
		}
	}
	return out
}

func (r *Run) watchdogFired(ctl *bubbleCtl, wd time.Duration) {
	if ctl.finished.Load() {
		return
	}
	id := ctl.bubbleID.Load()
	ph := ctl.phase.Load()
	var dumps []string
	counts := map[int64]int{} // library goroutine -> samples in which it was running/runnable
	where := map[int64]string{}
	const nSamples = 10
	progress0 := ctl.progress.Load()
	for i := 0; i < nSamples; i++ {
		st := allStacks()
		var sb strings.Builder
		for _, g := range parseStacks(st) {
			if g.Bubble != id {
				continue
			}
			sb.WriteString(g.Text + "\n\n")
			if !g.moduleCreated() {
				continue
			}
			if strings.HasPrefix(g.State, "running") || strings.HasPrefix(g.State, "runnable") {
				counts[g.ID]++
				fn := ""
				for _, l := range strings.Split(g.Text, "\n") {
					if strings.HasPrefix(l, modulePath) {
						fn = l
						break
					}
				}
				if j := strings.IndexByte(fn, '('); j > 0 {
					fn = fn[:j]
				}
				where[g.ID] = fn
			}
		}
		dumps = append(dumps, sb.String())
		time.Sleep(500 * time.Millisecond)
	}
	// Nothing of the bubble is left (seen once, on a machine running three sweeps at a time: the
	// timer fired although the scenario had completed): nothing to judge.
	if ctl.finished.Load() || dumps[len(dumps)-1] == "" {
		r.Count("watchdog_fired_for_a_bubble_that_was_over", 1)
		return
	}
	// A bubble that is merely slow advances its progress counter: it gets more time (a wall-clock
	// bound alone proves nothing on a loaded machine), three times at most.
	if ctl.progress.Load() != progress0 && ctl.rearmed.Add(1) <= 3 {
		r.Count("watchdog_gave_a_slow_bubble_more_time", 1)
		time.AfterFunc(wd, func() { r.watchdogFired(ctl, wd) })
		return
	}
	// A spin: a goroutine started by the library was never seen blocked over the whole
	// sampling window (5 s) and the stepper made no progress at all meanwhile.
	spinning := ""
	if ctl.progress.Load() == progress0 {
		for gid, c := range counts {
			if c == nSamples {
				spinning = fmt.Sprintf("goroutine %d (last seen in %s)", gid, where[gid])
			}
		}
	}
	descr := ""
	if d := ctl.descr.Load(); d != nil {
		descr = *d
	}
	prop, name := "", ""
	if ph != nil {
		prop, name = ph.Property, ph.Name
	}
	if spinning != "" && prop != "" {
		r.Violation(prop, "spin:"+name, fmt.Sprintf("library %s was busy (never blocked) in %d/%d stack samples over 5s while the harness, in phase %q, saw no progress; the scenario had not finished after %s real time (a busy loop never lets the fake clock advance)", spinning, nSamples, nSamples, name, wd),
			map[string]any{"scenario": descr, "phase": name, "stacks": dumps[len(dumps)-1]})
		if prop != r.Prop {
			r.Inconclusive(fmt.Sprintf("scenario could not complete: library spinning in phase %q (a violation of %s)", name, prop))
		}
	} else {
		r.Inconclusive(fmt.Sprintf("watchdog: bubble did not finish within %s real time in phase %q and no library goroutine was identified as spinning; scenario: %.300s", wd, name, descr))
		os.WriteFile(filepath.Join(r.Cfg.VerifDir, "logs", r.Prop+".watchdog.txt"), []byte(dumps[len(dumps)-1]), 0o644)
	}
	r.writeResult(map[string]any{"type": "aborted", "property": r.Prop, "reason": "watchdog"})
	os.Exit(3)
}

// ---------------------------------------------------------------------------------------
// small helpers

func fingerprint(parts ...any) string {
	h := fnv.New64a()
	for _, p := range parts {
		fmt.Fprintf(h, "%v|", p)
	}
	return strconv.FormatUint(h.Sum64(), 36)
}

func jsonString(v any) string {
	b, _ := json.Marshal(v)
	return string(b)
}

func readJSON(path string, v any) error {
	b, err := os.ReadFile(path)
	if err != nil {
		return err
	}
	return json.Unmarshal(b, v)
}
