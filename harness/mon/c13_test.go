package mon

// C13 — Rate.Recalculate / Optimize / Flatten: reference monitor in math/big over generated
// inputs (boundary-directed, extremes, PRNG over the full ranges, a small exhaustive block).

import (
	"errors"
	"fmt"
	"math"
	"math/big"
	"math/rand/v2"
	"testing"
	"time"

	"github.com/akramarenkov/cqos/v2/limit"
)

type rateCase struct {
	I int64
	Q uint64
	M int64
}

// judgeRate applies the oracle of C13 to one call; it returns "" or a description.
func judgeRate(c rateCase) (string, string) {
	rt := limit.Rate{Interval: time.Duration(c.I), Quantity: c.Q}
	got, err := rt.Recalculate(time.Duration(c.M))
	class := "ok"

	// Optimize / Flatten are Recalculate with fixed minimums.
	if c.M == int64(limit.OptimizationInterval) {
		g2, e2 := rt.Optimize()
		if g2 != got || !sameErr(e2, err) {
			return fmt.Sprintf("Optimize()=(%v,%v) differs from Recalculate(OptimizationInterval)=(%v,%v)", g2, e2, got, err), class
		}
	}
	if c.M == 0 {
		g2, e2 := rt.Flatten()
		if g2 != got || !sameErr(e2, err) {
			return fmt.Sprintf("Flatten()=(%v,%v) differs from Recalculate(0)=(%v,%v)", g2, e2, got, err), class
		}
	}

	if err != nil && got != (limit.Rate{}) {
		return fmt.Sprintf("error %v returned together with non-zero rate %+v", err, got), "err"
	}

	// invalid inputs: the matching error
	switch {
	case c.I < 0:
		if !errors.Is(err, limit.ErrIntervalNegative) {
			return fmt.Sprintf("negative interval: err=%v", err), "invalid"
		}
		return "", "invalid"
	case c.I == 0:
		if !errors.Is(err, limit.ErrIntervalZero) {
			return fmt.Sprintf("zero interval: err=%v", err), "invalid"
		}
		return "", "invalid"
	case c.Q == 0:
		if !errors.Is(err, limit.ErrQuantityZero) {
			return fmt.Sprintf("zero quantity: err=%v", err), "invalid"
		}
		return "", "invalid"
	case c.M < 0:
		if !errors.Is(err, limit.ErrMinimumIntervalNegative) {
			return fmt.Sprintf("negative minimum: err=%v", err), "invalid"
		}
		return "", "invalid"
	}

	I := new(big.Int).SetInt64(c.I)
	Q := new(big.Int).SetUint64(c.Q)
	M := new(big.Int).SetInt64(c.M)
	floorIQ := new(big.Int).Quo(I, Q)

	if err != nil {
		// an error is allowed only for a converted interval of zero (minimum 0) or a
		// converted quantity that does not fit the type
		switch {
		case errors.Is(err, limit.ErrConvertedIntervalZero):
			if !(c.M == 0 && floorIQ.Sign() == 0) {
				return fmt.Sprintf("ErrConvertedIntervalZero although minimum=%d floor(I/Q)=%v", c.M, floorIQ), "err"
			}
			return "", "err-interval-zero"
		case errors.Is(err, limit.ErrConvertedQuantityUnrepresentable):
			// justified only if Quantity 1 is not possible (floor(I/Q) < minimum or zero)
			// and floor(Q*minimum/I) does not fit uint64
			qm := new(big.Int).Quo(new(big.Int).Mul(Q, M), I)
			flatPossible := floorIQ.Sign() != 0 && floorIQ.Cmp(M) >= 0
			if flatPossible || qm.IsUint64() {
				return fmt.Sprintf("ErrConvertedQuantityUnrepresentable although floor(I/Q)=%v minimum=%d floor(Q*m/I)=%v", floorIQ, c.M, qm), "err"
			}
			return "", "err-unrepresentable"
		default:
			return fmt.Sprintf("unexpected error %v for a valid rate and non-negative minimum", err), "err"
		}
	}

	// a returned rate must be valid, not below the minimum, flat unless at the minimum, and
	// match the original speed within rounding
	if verr := got.IsValid(); verr != nil {
		return fmt.Sprintf("returned rate %+v is invalid: %v", got, verr), class
	}
	if int64(got.Interval) < c.M {
		return fmt.Sprintf("returned interval %d below minimum %d", got.Interval, c.M), class
	}
	if got.Quantity != 1 && int64(got.Interval) != c.M {
		return fmt.Sprintf("returned %+v: quantity is not 1 although interval differs from minimum %d", got, c.M), class
	}
	rI := new(big.Int).SetInt64(int64(got.Interval))
	rQ := new(big.Int).SetUint64(got.Quantity)
	// slower by less than one element per interval: Q*rI/I - rQ < 1  <=>  Q*rI - rQ*I < I
	lhs := new(big.Int).Sub(new(big.Int).Mul(Q, rI), new(big.Int).Mul(rQ, I))
	if lhs.Cmp(I) >= 0 {
		return fmt.Sprintf("returned %+v is slower than the original by one element per interval or more", got), class
	}
	// faster by less than one nanosecond of its interval: I*rQ/Q - rI < 1 <=> I*rQ - rI*Q < Q
	lhs2 := new(big.Int).Sub(new(big.Int).Mul(I, rQ), new(big.Int).Mul(rI, Q))
	if lhs2.Cmp(Q) >= 0 {
		return fmt.Sprintf("returned %+v is faster than the original by one nanosecond of its interval or more", got), class
	}
	if got.Quantity == 1 {
		class = "flat"
		if int64(got.Interval) == c.M {
			class = "flat-at-minimum"
		}
	} else {
		class = "quantity"
	}
	if floorIQ.Cmp(M) == 0 && new(big.Int).Rem(I, Q).Sign() != 0 {
		class += "/boundary-remainder"
	}
	return "", class
}

func sameErr(a, b error) bool {
	if a == nil || b == nil {
		return a == nil && b == nil
	}
	return a.Error() == b.Error()
}

func genRateCase(rng *rand.Rand) rateCase {
	pickMag := func() uint64 {
		switch rng.IntN(6) {
		case 0:
			return uint64(rng.IntN(50))
		case 1:
			return uint64(rng.IntN(100000))
		case 2:
			return uint64(1) << rng.IntN(64)
		case 3:
			return (uint64(1) << rng.IntN(64)) - 1
		case 4:
			return (uint64(1) << rng.IntN(63)) + 1
		default:
			return rng.Uint64() >> rng.IntN(64)
		}
	}
	clampI := func(v uint64) int64 {
		if v > math.MaxInt64 {
			return math.MaxInt64
		}
		return int64(v)
	}
	switch rng.IntN(10) {
	case 0, 1, 2, 3: // boundary-directed: I = Q*m' + r, minimum around m'
		q := pickMag()%(1<<20) + 1
		mp := pickMag() % (1 << 40)
		if rng.IntN(3) == 0 {
			mp = uint64(limit.OptimizationInterval)
		}
		var rem uint64
		switch rng.IntN(4) {
		case 0:
			rem = 0
		case 1:
			rem = 1
		case 2:
			rem = q - 1
		default:
			rem = rng.Uint64N(q)
		}
		i := q*mp + rem
		m := int64(mp) + int64(rng.IntN(3)) - 1
		if rng.IntN(8) == 0 {
			m = int64(limit.OptimizationInterval)
		}
		return rateCase{I: clampI(i), Q: q, M: m}
	case 4: // extremes
		ext := []uint64{0, 1, 2, math.MaxInt64, math.MaxUint64, math.MaxInt64 - 1, 1 << 32, 1<<32 - 1}
		c := rateCase{I: clampI(ext[rng.IntN(len(ext))]), Q: ext[rng.IntN(len(ext))], M: clampI(ext[rng.IntN(len(ext))])}
		if rng.IntN(10) == 0 {
			c.I = -c.I
		}
		if rng.IntN(10) == 0 {
			c.M = -c.M - 1
		}
		return c
	case 5: // optimize / flatten with arbitrary rates
		m := int64(0)
		if rng.IntN(2) == 0 {
			m = int64(limit.OptimizationInterval)
		}
		return rateCase{I: clampI(pickMag()), Q: pickMag(), M: m}
	case 6: // quantity close to overflow: large Q, small I, large m
		return rateCase{I: int64(rng.IntN(1000)) + 1, Q: math.MaxUint64 >> rng.IntN(20), M: clampI(pickMag())}
	default:
		c := rateCase{I: clampI(pickMag()), Q: pickMag(), M: clampI(pickMag())}
		if rng.IntN(40) == 0 {
			c.I = -c.I
		}
		if rng.IntN(40) == 0 {
			c.M = -c.M
		}
		return c
	}
}

func TestC13(t *testing.T) {
	r := newRun(t, "C13", "exploration")
	defer r.Finish(t)
	r.Rule = "cases = (Interval, Quantity, minimum) triples: boundary-directed (Interval = Quantity*m' + rem, minimum in {m'-1,m',m'+1}), extremes, powers of two +-1, PRNG over the full int64/uint64 ranges, plus the exhaustive block Interval,minimum in [-2..40], Quantity in [0..40]; each call of the real Recalculate (and Optimize/Flatten where the minimum matches) is judged by a math/big oracle written from the property; non-trivial = valid input (not rejected by IsValid / negative minimum); distinct by input triple (set capped at 400000)"
	r.Assumptions = []string{"math/big arithmetic is correct", "go1.26.8 compiles rate.go as the pinned toolchain does (pure integer code)"}
	r.Floor = 1000

	check := func(c rateCase) {
		r.Eval(1)
		msg, class := judgeRate(c)
		r.Count("class."+class, 1)
		if class != "invalid" {
			r.NonTrivial(fmt.Sprintf("%d/%d/%d", c.I, c.Q, c.M))
		}
		if msg != "" {
			r.Violation("C13", fmt.Sprintf("recalculate:%d/%d/%d", c.I, c.Q, c.M), msg, c)
		}
	}

	if r.Cfg.Replay != "" {
		var doc struct{ Witness rateCase }
		if err := readJSON(r.Cfg.Replay, &doc); err != nil {
			t.Fatal(err)
		}
		check(doc.Witness)
		return
	}

	// exhaustive block
	t.Run("exhaustive", func(t *testing.T) {
		for i := int64(-2); i <= 40; i++ {
			for q := uint64(0); q <= 40; q++ {
				for m := int64(-2); m <= 40; m++ {
					check(rateCase{i, q, m})
				}
			}
		}
	})
	r.Extra["exhaustive_block"] = "Interval,minimum in [-2..40] x Quantity in [0..40]: 43*41*43 cases"

	// witnesses of the defect repaired by the fix: commit stay in the list for good
	for _, c := range []rateCase{
		{int64(20*time.Millisecond) + 1, 2, int64(limit.OptimizationInterval)},
		{7, 2, 3}, {9, 4, 2}, {int64(30*time.Millisecond) + 2, 3, int64(limit.OptimizationInterval)},
	} {
		check(c)
		r.Sample(map[string]any{"input": c, "class": second(judgeRate(c))})
	}

	chunks := r.Cfg.pick(64, 1024)
	per := r.Cfg.pick(8000, 40000)
	r.Parallel(t, "random", chunks, func(t *testing.T, idx int, rng *rand.Rand) {
		for k := 0; k < per && !r.Stopped(); k++ {
			c := genRateCase(rng)
			check(c)
			if idx == 0 && k < 3 {
				rt := limit.Rate{Interval: time.Duration(c.I), Quantity: c.Q}
				got, err := rt.Recalculate(time.Duration(c.M))
				r.Sample(map[string]any{"input": c, "result": fmt.Sprintf("%+v", got), "err": fmt.Sprint(err)})
			}
		}
	})
}

func second(_ string, b string) string { return b }
