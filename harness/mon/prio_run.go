package mon

// The virtual-time stepper for the priority disciplines: one harness goroutine inside a
// synctest bubble drives the real, concurrently running discipline through an operation
// script, observing it at quiescent points, and applies the oracles of C01, C02, C05, C06,
// C07, C15, C16, C17 and C19 to what it sees at the API boundary.

import (
	"errors"
	"fmt"
	"math/rand/v2"
	"sort"
	"strings"
	"sync"
	"sync/atomic"
	"testing/synctest"
	"time"

	v1prio "github.com/akramarenkov/cqos/priority"
	v2prio "github.com/akramarenkov/cqos/v2/priority"
)

type POp struct {
	K    string `json:"k"` // W write, C close, D drain, R release, S sleep, P progress probe, A alone probe, add, rm, stop, cancel, graceful, gstop
	P    uint   `json:"p,omitempty"`
	N    int    `json:"n,omitempty"`
	D    int64  `json:"d,omitempty"`
	Mode string `json:"mode,omitempty"`
	Cap  int    `json:"cap,omitempty"`
}

type PInputSpec struct {
	P       uint `json:"p"`
	Cap     int  `json:"cap"`
	Prefill int  `json:"prefill,omitempty"`
	Writers int  `json:"parked_writers,omitempty"`  // > 0: that many goroutines keep sending to this (small) channel
	NilChan bool `json:"nil_channel,omitempty"`     // the input is a nil channel: never readable, never closed
	Thief   bool `json:"second_consumer,omitempty"` // a goroutine of the harness also receives from this channel
}

type DivFault struct {
	At      int    `json:"at"`                // divider call index (0-based) at which to misbehave; -1: state trigger
	Kind    string `json:"kind"`              // plus1 | double | minus1
	Trigger string `json:"trigger,omitempty"` // "", inflight=<j>, listlen=<m>, second-phase
}

type PrioScenario struct {
	Ver            string       `json:"version"` // v2 | v1 | v2s | v1s
	Divider        string       `json:"divider"`
	DivSeed        uint64       `json:"divider_seed,omitempty"`
	H              uint         `json:"handlers"`
	Inputs         []PInputSpec `json:"inputs"`
	OutCap         int          `json:"v1_output_capacity,omitempty"`
	FbCap          int          `json:"v1_feedback_capacity,omitempty"`
	Script         []POp        `json:"script"`
	Saturate       bool         `json:"saturate,omitempty"`
	DividerDelayNs int          `json:"divider_takes_ns,omitempty"`                             // the (user supplied) divider takes that long per call
	IgnoreErr      bool         `json:"err_never_read,omitempty"`                               // the user never reads Err() once the divider has misbehaved
	NeverEnds      bool         `json:"never_ends,omitempty"`                                   // an input is a nil channel: the discipline must not terminate on its own
	Starved        bool         `json:"v1_some_priority_without_share,omitempty"`               // no progress is expected, only safety
	StarveEndsAtRm *uint        `json:"without_share_until_this_priority_is_removed,omitempty"` // once RemoveInput of it has returned every remaining priority has a share
	Fault          *DivFault    `json:"fault,omitempty"`
	Seed           uint64       `json:"seed"`
}

func (sc PrioScenario) simple() bool { return sc.Ver == "v2s" || sc.Ver == "v1s" }
func (sc PrioScenario) isV1() bool   { return sc.Ver == "v1" || sc.Ver == "v1s" }

const (
	prioL = 50 * time.Microsecond // bounded-progress window on the fake clock (~1000 scheduler rounds)
)

type pFinding struct{ Prop, Key, Msg string }

type prioResult struct {
	Rejected        string
	RejectedErr     error
	Findings        []pFinding
	Received        int
	Written         int
	MaxHeld         int
	ReachedH        bool
	HeldVectors     map[string]struct{}
	ReleaseGrps     int
	SatGroups       int // release groups inside the saturation window
	SatChecks       int // checkpoints at which every priority held exactly its share
	Probes          int // progress probes evaluated
	AloneProbes     int
	LoneBursts      int
	LoneSteps       int // deliveries that had to happen without a release while one priority was alone
	LoneLegitWaits  int
	Terminated      bool
	TermWay         string
	ErrValues       []string
	CensusTaken     bool
	ErrIgnored      bool
	Leaked          int
	HoldChecks      int // quiescent points at which the discipline was (correctly) still open although drained except for a withheld release / open input
	StopState       string
	StopInjected    bool
	RepeatedStops   int
	CtlOps          int
	AbsentRemovals  int
	RemovedWithData int // removals / replacements after which the old channel had items taken or left
	DivCalls        int
	FaultHit        bool
	FaultInfo       string
	PriosWith2      int
	Log             []string
	Aborted         string
	NilAdds         int
	OldReAdds       int
	Stolen          int
	NeverEndedHeld  bool
	Unstarved       bool
	SatRemovals     int
	ReAdds          int
	Stalled         string // Starved scenarios: the liveness expectation at which the run was ended
}

type ctlCall struct {
	op     string
	p      uint
	in     *pInput
	old    *pInput // channel that stops being read once the call has returned (nil: none)
	done   atomic.Bool
	frozen bool
}

type prioExec struct {
	sc   PrioScenario
	sys  *prioSys
	ctl  *bubbleCtl
	rng  *rand.Rand
	res  *prioResult
	base time.Time

	inputs map[uint]*pInput // current channel per priority
	chans  []*pInput        // by channel id
	nextCh int

	held      []Dlv
	heldN     atomic.Int64 // mirror of len(held) for the divider monitor
	recvN     atomic.Int64 // mirror of res.Received for the divider monitor
	inRecv    atomic.Bool  // the stepper is inside a blocking receive
	heldBy    map[uint]int
	shares    map[uint]uint
	div       divFn
	relPend   atomic.Int64
	recentRel int // releases issued since the last completed settle (the scheduler consumes a bounded number per round)
	abort     chan struct{}
	wg        sync.WaitGroup

	outClosed               bool
	errClosed               bool
	hasThief                bool
	unstarved               bool // a Starved scenario whose removal has returned: liveness oracles apply from here on
	satPaused               bool // saturation: a removal has changed the shares, the per-receive bound is off until the next checkpoint
	ignoreErr               bool // this client never reads Err(): for it the closure of Output() is the termination
	termSeen                bool
	stopIssued              bool
	stopRet                 atomic.Bool
	runningAtStopReturn     atomic.Int64
	blockedAtGracefulReturn atomic.Value // string: the same at the return of GracefulStop()
	stopIssuedA             atomic.Bool  // mirror of stopIssued for other goroutines
	blockedAtStopReturn     atomic.Value // string: stack of a library goroutine found blocked when a Stop() call returned
	gracefulOn              bool
	gracefulRt              atomic.Bool
	gracefulSeen            bool
	censusAtGraceful        bool
	faultSeen               bool
	failed                  bool
	ctls                    []*ctlCall

	mon *divMonitor
}

func (x *prioExec) now() int64 { return int64(time.Since(x.base)) }

func (x *prioExec) logf(format string, a ...any) {
	if len(x.res.Log) < 400 {
		x.res.Log = append(x.res.Log, fmt.Sprintf("%d: ", x.now())+fmt.Sprintf(format, a...))
	}
}

// livenessKeys are the findings that say "something should have happened by now": in a v1
// configuration in which the divider leaves a priority without a share nothing of the kind is
// promised, the scenario just ends there.
var livenessKeys = map[string]bool{
	"no-progress-idle": true, "alone-not-granted-all": true, "lone-burst-stalled": true, "not-refilled": true,
	"share-mismatch": true, "share-exceeded": true, "ctl-hangs": true, "no-progress-epilogue": true, "never-delivered": true,
	"never-delivered-after-control-calls": true, "no-termination": true, "graceful-not-returned": true, "ctl-not-returned": true,
}

func (x *prioExec) fail(prop, key, format string, a ...any) {
	msg := fmt.Sprintf(format, a...)
	if x.sc.Starved && !x.unstarved && livenessKeys[key] {
		x.logf("stalled (no share for some priority, nothing claimed): %s", msg)
		x.res.Stalled = key
		x.failed = true
		return
	}
	x.res.Findings = append(x.res.Findings, pFinding{prop, key, msg})
	x.logf("VIOLATION %s %s", prop, msg)
	x.failed = true
}

func (x *prioExec) unbuffered() int {
	n := 0
	for _, in := range x.inputs {
		if in.Cap == 0 && in.closedAt.Load() == 0 {
			n++
		}
	}
	return n
}

func (x *prioExec) feedbackLimit() int {
	l := int(x.sc.H) / 10
	m := len(x.sc.Inputs)
	if x.sc.isV1() {
		m = 1
	}
	if l < m {
		l = m
	}
	return l
}

// ---------------------------------------------------------------------------------------
// observation

func (x *prioExec) onRecv(d Dlv) {
	x.ctl.progress.Add(1)
	x.res.Received++
	x.recvN.Add(1)
	var in *pInput
	if d.It.Ch >= 0 && d.It.Ch < len(x.chans) {
		in = x.chans[d.It.Ch]
	}
	if in == nil {
		x.fail("C02", "not-written", "delivered item %+v that was never written", d.It)
		return
	}
	if !x.sc.simple() && d.Tag != in.P {
		prop := "C02"
		if x.res.CtlOps > 0 {
			prop = "C17"
		}
		x.fail(prop, "tag", "item %+v written to the channel registered under priority %d was delivered tagged %d", d.It, in.P, d.Tag)
	}
	if x.sc.simple() || in.multi > 0 || in.thief {
		// H handler goroutines race to enter Handle (or several writers race to send): only
		// exactly-once is claimed, not order
		if in.seen == nil {
			in.seen = map[int]bool{}
		}
		if in.seen[d.It.Seq] {
			x.fail("C02", "duplicate", "priority %d channel #%d: item seq %d was delivered twice (or is an item that was never written: %+v)", in.P, in.ID, d.It.Seq, d.It)
		}
		in.seen[d.It.Seq] = true
		in.recv++
	} else {
		switch {
		case d.It.Seq == in.recv:
			in.recv++
		case x.stopIssued && d.It.Seq > in.recv:
			// after a rough stop an item read from the input may have been dropped: gaps allowed
			in.recv = d.It.Seq + 1
		case d.It.Seq < in.recv:
			p := "C02"
			if x.stopIssued {
				p = "C16"
			}
			x.fail(p, "duplicate-or-reordered", "priority %d channel #%d: item seq %d delivered after seq %d (duplicate or reordered)", in.P, in.ID, d.It.Seq, in.recv-1)
		default:
			x.fail("C02", "gap", "priority %d channel #%d: item seq %d delivered while seq %d was expected (lost or reordered)", in.P, in.ID, d.It.Seq, in.recv)
			in.recv = d.It.Seq + 1
		}
	}
	if int64(in.recv) > in.wsCount.Load() {
		x.fail("C02", "not-written", "priority %d channel #%d: received %d items but only %d writes were started", in.P, in.ID, in.recv, in.wsCount.Load())
	}
	if in.takenAt >= 0 && int64(in.recv) > in.takenAt {
		x.fail("C17", "read-after-remove", "channel #%d (priority %d) was read after its removal/replacement had returned: %d items delivered, %d had been taken when the call returned", in.ID, in.P, in.recv, in.takenAt)
	}
	x.held = append(x.held, d)
	x.heldN.Store(int64(len(x.held)))
	x.heldBy[d.Tag]++
	n := len(x.held)
	if n > x.res.MaxHeld {
		x.res.MaxHeld = n
	}
	if n == int(x.sc.H) {
		x.res.ReachedH = true
	}
	if x.sc.simple() {
		// the true number of concurrent Handle calls (after a stop/cancel Handle returns on its
		// own because it honours its context, so the stepper's own count no longer applies)
		if c := x.sys.entered.Load() - x.sys.returned.Load(); c > int64(x.sc.H) {
			x.fail("C01", "capacity", "%d Handle calls are running concurrently, HandlersQuantity is %d", c, x.sc.H)
		}
	}
	if n > int(x.sc.H) && !(x.sc.simple() && x.stopIssued) {
		x.fail("C01", "capacity", "%d items handed out and not released, HandlersQuantity is %d (per priority %v)", n, x.sc.H, x.heldBy)
	}
	if x.sc.Saturate && !x.satPaused && x.armed() {
		if uint(x.heldBy[d.Tag]) > x.shares[d.Tag] {
			x.fail("C05", "share-exceeded", "under saturation priority %d holds %d items, its share of %d handlers is %d (all shares %v, held %v)", d.Tag, x.heldBy[d.Tag], x.sc.H, x.shares[d.Tag], x.shares, x.heldBy)
		}
	}
	if len(x.res.HeldVectors) < 4000 {
		x.res.HeldVectors[x.heldVector()] = struct{}{}
	}
	if x.faultSeen && x.mon != nil {
		x.mon.afterFault.Add(1)
	}
}

func (x *prioExec) heldVector() string {
	ps := make([]uint, 0, len(x.heldBy))
	for p := range x.heldBy {
		ps = append(ps, p)
	}
	sort.Slice(ps, func(i, j int) bool { return ps[i] > ps[j] })
	var sb strings.Builder
	for _, p := range ps {
		fmt.Fprintf(&sb, "%d:%d ", p, x.heldBy[p])
	}
	return sb.String()
}

// armed: every (buffered, prefilled) input still holds at least H+cap(output)+1 undelivered items.
func (x *prioExec) armed() bool {
	need := int(x.sc.H) + x.sys.outCap + 1
	for _, in := range x.inputs {
		if in.multi > 0 {
			// parked writers: at every quiescent point `multi` >= 2H + cap(output) + 4 of them
			// sit in a send; that is more than the discipline can take before the next one
			if in.mwEnded {
				return false
			}
			continue
		}
		if in.enq-in.recv < need {
			return false
		}
	}
	return true
}

// pull takes everything that is available right now.
func (x *prioExec) pull() int {
	n := 0
	for {
		d, st := x.sys.tryRecv()
		switch st {
		case recvGot:
			x.onRecv(d)
			n++
			continue
		case recvClosed:
			x.onOutputClosed()
		}
		break
	}
	n += x.drainStolen()
	x.pollErr()
	x.pollCtl()
	x.pollGraceful()
	return n
}

// drainStolen books what the second consumers took out of the inputs themselves: such an item
// was read from the channel exactly once - by somebody else than the discipline.
func (x *prioExec) drainStolen() int {
	n := 0
	for _, in := range x.chans {
		if !in.thief {
			continue
		}
		for {
			select {
			case it := <-in.stolen:
				if in.seen == nil {
					in.seen = map[int]bool{}
				}
				if it.Ch != in.ID || in.seen[it.Seq] {
					x.fail("C02", "duplicate", "priority %d channel #%d: item %+v was taken by the second consumer but was also delivered (or is not of this channel)", in.P, in.ID, it)
				}
				in.seen[it.Seq] = true
				in.recv++
				x.res.Stolen++
				x.ctl.progress.Add(1)
				n++
				continue
			default:
			}
			break
		}
	}
	return n
}

// pollGraceful — C07 (v1): GracefulStop() returns only when every delivered item was released.
// The observation is later than the return itself and items are only ever released by the
// stepper in between, so an unreleased item seen here was unreleased at the return as well.
func (x *prioExec) pollGraceful() {
	if x.gracefulSeen || !x.gracefulRt.Load() || x.stopIssued {
		return
	}
	x.gracefulSeen = true
	x.logf("GracefulStop() returned")
	if x.mon != nil && x.mon.faulted.Load() {
		return
	}
	if len(x.held) > 0 {
		x.fail("C07", "graceful-returned-early", "GracefulStop() has returned although %d delivered item(s) have not been released yet (%v)", len(x.held), x.heldBy)
	}
	// C19: once GracefulStop() has returned no goroutine started by the discipline remains
	// (looked at 1us virtual later: what is still there is blocked, here typically waiting
	// for the releases the stepper is withholding)
	if !x.censusAtGraceful {
		x.censusAtGraceful = true
		if left := bubbleCensus(x.ctl); left != "" {
			x.fail("C19", "leak-after-graceful-return:"+x.sc.Ver, "GracefulStop() has returned but goroutine(s) started by the discipline remain (1us virtual later, blocked): %s", firstLines(left, 10))
		}
	}
}

func (x *prioExec) onOutputClosed() {
	if x.outClosed {
		return
	}
	x.outClosed = true
	x.logf("output closed")
	x.checkTermination("Output() closed")
}

// pollErr reads whatever Err() has without blocking.
func (x *prioExec) pollErr() {
	if x.ignoreErr && x.mon != nil && x.mon.faulted.Load() && !x.stopIssued {
		return
	}
	for !x.errClosed {
		select {
		case e, ok := <-x.sys.errCh:
			if !ok {
				x.errClosed = true
				x.logf("Err() closed")
				x.checkTermination("Err() closed")
				return
			}
			x.onErrValue(e)
		default:
			return
		}
	}
}

func (x *prioExec) onErrValue(e error) {
	s := "<nil>"
	if e != nil {
		s = e.Error()
	}
	x.res.ErrValues = append(x.res.ErrValues, s)
	x.logf("Err() yielded %s", s)
	if e == nil {
		return
	}
	if x.sc.Fault != nil && x.mon != nil && x.mon.faulted.Load() {
		if !errors.Is(e, v2prio.ErrDividerBad) && !errors.Is(e, v1prio.ErrDividerBad) {
			x.fail("C15", "wrong-error", "after a divider fault Err() yielded %q instead of ErrDividerBad", s)
		}
		x.faultSeen = true
		return
	}
	x.fail("C07", "error-in-normal-mode", "Err() yielded the non-nil error %q although the divider obeys the sum rule", s)
}

// checkTermination is called when a closure is observed: it must not be early.
func (x *prioExec) checkTermination(what string) {
	if x.termSeen {
		return
	}
	x.termSeen = true
	x.res.Terminated = true
	if x.sc.simple() {
		// termination of a simple discipline implies that every Handle call has returned;
		// looked at right at the closure, before anything else is allowed to run on
		if en, rt := x.sys.entered.Load(), x.sys.returned.Load(); en != rt {
			x.fail("C07", "handle-running", "%s while %d Handle call(s) have not returned", what, en-rt)
			if x.stopIssued {
				x.fail("C16", "handle-running-at-termination", "%s after a stop/cancel while %d Handle call(s) are still running", what, en-rt)
			}
		}
	}
	if x.stopIssued {
		x.res.TermWay = "stop"
		return
	}
	if x.mon != nil && x.mon.faulted.Load() {
		x.res.TermWay = "divider-fault"
		// after a divider fault the discipline may end only once in-flight items were released
		if len(x.held) > 0 {
			x.fail("C15", "early-termination-after-fault", "%s after a divider fault while %d delivered items were not yet released", what, len(x.held))
		}
		return
	}
	x.res.TermWay = "drained"
	synctest.Wait() // let writers finish stamping; everything else is quiescent anyway
	x.drainStolen()
	x.pollCtl()
	for _, in := range x.chans {
		if in.removed {
			if int64(in.recv) < in.takenAt {
				x.fail("C07", "early-termination", "%s although %d items taken from the removed channel #%d (priority %d) were delivered only %d times", what, in.takenAt, in.ID, in.P, in.recv)
				return
			}
			continue
		}
		if in.closedAt.Load() == 0 {
			x.fail("C07", "early-termination", "%s although the input of priority %d (channel #%d) was not closed", what, in.P, in.ID)
			return
		}
		if int64(in.recv) < in.wcCount.Load() {
			x.fail("C07", "early-termination", "%s although priority %d had %d written items of which only %d were delivered", what, in.P, in.wcCount.Load(), in.recv)
			// the same observation is a loss of written items (C02) and, after control calls, a
			// registered channel that was not served (C17)
			x.fail("C02", "lost-at-termination", "the discipline terminated normally but priority %d (channel #%d) had %d items written before its close of which only %d were delivered", in.P, in.ID, in.wcCount.Load(), in.recv)
			// ... and a finite refutation of "every written item is eventually delivered" (C06):
			// nothing is delivered after the closure
			x.fail("C06", "terminated-with-undelivered-items", "the discipline terminated normally (nobody stopped it) while priority %d (channel #%d) still had %d written items that were never delivered: they never will be", in.P, in.ID, in.wcCount.Load()-int64(in.recv))
			if x.res.CtlOps > 0 {
				x.fail("C17", "registered-channel-not-served", "the discipline terminated normally but channel #%d registered for priority %d (by AddInput or at creation) had %d written items of which only %d were delivered", in.ID, in.P, in.wcCount.Load(), in.recv)
			}
			return
		}
	}
	if len(x.held) > 0 {
		x.fail("C07", "early-termination", "%s although %d delivered items were not yet released (%v)", what, len(x.held), x.heldBy)
		// a closed channel is termination for whoever only watches that channel (C19): nothing
		// the discipline started may be left then - here something obviously still waits
		if left := bubbleCensus(x.ctl); left != "" {
			x.fail("C19", "leak-at-early-closure:"+x.sc.Ver, "%s while %d delivered items were unreleased, and goroutine(s) started by the discipline remain (1us virtual later, blocked): %s", what, len(x.held), firstLines(left, 10))
		}
		for _, d := range x.held {
			if c := x.chans[d.It.Ch]; c != nil && c.removed {
				x.fail("C17", "removed-priority-forgotten", "%s although an item of priority %d, whose input was removed / replaced while the item was in flight, had not been fed back yet: in-flight items of a removed priority must stay accounted for", what, c.P)
				break
			}
		}
		return
	}
	if x.sc.isV1() && !x.gracefulOn {
		x.fail("C07", "early-termination", "%s of the v1 discipline although neither GracefulStop nor Stop was called", what)
	}
}

func (x *prioExec) pollCtl() {
	for _, c := range x.ctls {
		if c.done.Load() && !c.frozen {
			c.frozen = true
			// counts are read at a quiescent point: a writer may be between its channel send
			// and its counter update otherwise
			synctest.Wait()
			// a removal / replacement has returned: freeze the old channel's count
			if c.old != nil && c.old.takenAt < 0 {
				c.old.takenAt = c.old.taken()
				c.old.removed = true
				c.old.removedByRm = c.op == "RemoveInput"
				x.logf("%s(%d) returned: channel #%d had %d items taken", c.op, c.p, c.old.ID, c.old.takenAt)
				if c.old.takenAt > 0 || c.old.wcCount.Load() > 0 {
					x.res.RemovedWithData++
				}
			}
			if c.op == "RemoveInput" && c.old != nil && x.sc.StarveEndsAtRm != nil && *x.sc.StarveEndsAtRm == c.p {
				x.unstarved = true
				x.res.Unstarved = true
				x.logf("RemoveInput(%d) has returned: every remaining priority has a share now", c.p)
			}
			if c.op == "RemoveInput" && c.old != nil {
				x.mon.allow(c.p, false)
				if x.sc.Saturate {
					// the configured set has changed: shares of the remaining priorities, judged
					// again from the next checkpoint on (the removed priority's items are released
					// before it, and the per-receive bound stays off until then)
					var rest []uint
					for p := range x.inputs {
						rest = append(rest, p)
					}
					x.shares = sharesOf(x.div, rest, x.sc.H)
					x.satPaused = true
					x.res.SatRemovals++
				}
			}
		}
	}
}

// ---------------------------------------------------------------------------------------
// waiting

// settle drains to quiescence: nothing arrives for a window derived from the loop structure.
func (x *prioExec) settle() {
	step := time.Duration(4*x.unbuffered()+2) * time.Nanosecond
	unread := func() int {
		if x.sys.fbLen != nil {
			return x.sys.fbLen()
		}
		return 0
	}
	need := 5 + (int(x.relPend.Load())+unread()+x.recentRel)/x.feedbackLimit()
	idle := 0
	for idle < need && !x.termSeen {
		synctest.Wait()
		if x.pull() > 0 {
			idle = 0
			continue
		}
		idle++
		time.Sleep(step)
	}
	// v1: release signals still sitting unread in the (harness-owned) feedback channel mean
	// that the library's own in-flight counters lag behind; give the scheduler the rounds it
	// needs to consume them (it takes a bounded number per round)
	for i := 0; i < 4000 && unread() > 0 && !x.termSeen && !x.stopIssued; i++ {
		time.Sleep(step)
		synctest.Wait()
		x.pull()
	}
	synctest.Wait()
	x.pull()
	if !x.termSeen {
		x.recentRel = 0
	}
}

// await receives until cond holds or the virtual window w has passed.
func (x *prioExec) await(w time.Duration, cond func() bool) bool {
	if x.sc.Starved && !x.unstarved && w > 3*time.Microsecond {
		// nothing is claimed about progress while a priority has no share: a stall just ends the
		// scenario, and waiting the full window for it only costs (a lot of) real time
		w = 3 * time.Microsecond
	}
	deadline := time.Now().Add(w)
	for !cond() {
		rem := time.Until(deadline)
		if rem <= 0 || x.termSeen {
			x.drainStolen()
			return cond()
		}
		if x.sc.isV1() || x.sc.simple() || x.hasThief {
			// termination of these is not signalled on the output: poll Err() in slices
			if rem > 2*time.Microsecond {
				rem = 2 * time.Microsecond
			}
		}
		x.inRecv.Store(true)
		d, st := x.sys.recvWait(rem)
		switch st {
		case recvGot:
			x.onRecv(d)
		case recvClosed:
			x.onOutputClosed()
		}
		x.inRecv.Store(false)
		x.drainStolen()
		x.pollErr()
		x.pollCtl()
	}
	return true
}

// ---------------------------------------------------------------------------------------
// actions

func (x *prioExec) startRelease(idx []int) {
	if len(idx) == 0 {
		return
	}
	sort.Ints(idx)
	keep := x.held[:0:0]
	drop := map[int]bool{}
	for _, i := range idx {
		drop[i] = true
	}
	var rel []Dlv
	for i, d := range x.held {
		if drop[i] {
			rel = append(rel, d)
		} else {
			keep = append(keep, d)
		}
	}
	x.held = keep
	x.heldN.Store(int64(len(x.held)))
	// issue in a random order
	x.rng.Shuffle(len(rel), func(i, j int) { rel[i], rel[j] = rel[j], rel[i] })
	for _, d := range rel {
		x.heldBy[d.Tag]--
		if x.heldBy[d.Tag] == 0 {
			delete(x.heldBy, d.Tag)
		}
		x.relPend.Add(1)
		d := d
		x.wg.Add(1)
		go func() {
			defer x.wg.Done()
			x.sys.release(d, x.abort)
			x.relPend.Add(-1)
		}()
	}
	x.res.ReleaseGrps++
	x.recentRel += len(rel)
	if x.sc.Saturate && x.armed() {
		x.res.SatGroups++
	}
	x.logf("release-start of %d items, still held %d", len(rel), len(x.held))
}

func (x *prioExec) pickRelease(op POp) []int {
	n := len(x.held)
	if n == 0 {
		return nil
	}
	all := func() []int {
		s := make([]int, n)
		for i := range s {
			s[i] = i
		}
		return s
	}
	k := op.N
	if k <= 0 || k > n {
		k = n
	}
	switch op.Mode {
	case "all":
		return all()
	case "allbut1":
		if n == 1 {
			return nil
		}
		s := all()
		j := x.rng.IntN(n)
		return append(s[:j], s[j+1:]...)
	case "oldest":
		return all()[:k]
	case "newest":
		return all()[n-k:]
	case "prio": // everything of one priority
		tags := make([]uint, 0, len(x.heldBy))
		for p := range x.heldBy {
			tags = append(tags, p)
		}
		sort.Slice(tags, func(i, j int) bool { return tags[i] < tags[j] })
		p := tags[x.rng.IntN(len(tags))]
		var s []int
		for i, d := range x.held {
			if d.Tag == p {
				s = append(s, i)
			}
		}
		return s
	case "keep-removed": // everything except items of channels that were removed / replaced
		var s []int
		for i, d := range x.held {
			if c := x.chans[d.It.Ch]; c != nil && c.removed {
				continue
			}
			s = append(s, i)
		}
		return s
	case "one":
		return []int{x.rng.IntN(n)}
	default: // random subset of size k
		return x.rng.Perm(n)[:k]
	}
}

func (x *prioExec) do(op POp) {
	if x.hasThief && (op.K == "P" || op.K == "A" || op.K == "B") {
		return // with a second consumer on an input "an item is waiting" is not a fact the stepper can rely on
	}
	x.ctl.progress.Add(1)
	switch op.K {
	case "W":
		if in := x.inputs[op.P]; in != nil && !in.closeEnq && !in.isNil {
			in.write(op.N)
			x.res.Written += op.N
			x.logf("write %d items to priority %d", op.N, op.P)
		}
	case "C":
		if in := x.inputs[op.P]; in != nil && !in.isNil {
			in.closeLater()
			x.logf("close input %d", op.P)
		}
	case "D":
		x.ctl.SetPhase("drain", "C06")
		x.settle()
	case "R":
		x.startRelease(x.pickRelease(op))
	case "S":
		time.Sleep(time.Duration(op.D))
		synctest.Wait()
		x.pull()
	case "P":
		x.progressProbe()
	case "A":
		x.aloneProbe(op)
	case "B":
		x.loneBurstProbe(op)
	case "X":
		x.saturationCheckpoint()
	case "H":
		x.holdCheck(op)
	case "add", "repl":
		x.addInput(op)
	case "readd":
		x.reAddInput(op)
	case "addold":
		x.addOldInput(op)
	case "rm":
		x.removeInput(op)
	case "graceful":
		x.callGraceful()
	case "stop", "cancel", "gstop":
		x.injectStop(op)
	}
}

// progressProbe — C06 (a): nothing in flight, all releases consumed, some input holds an
// undelivered item => an item arrives within L without any release.
func (x *prioExec) progressProbe() {
	x.startRelease(x.pickRelease(POp{Mode: "all"}))
	x.ctl.SetPhase("await-release-consumption", "C06")
	x.settle()
	if len(x.held) > 0 {
		// items arrived while draining: release again until nothing is held
		for i := 0; i < 200 && len(x.held) > 0 && !x.termSeen; i++ {
			x.startRelease(x.pickRelease(POp{Mode: "all"}))
			x.settle()
		}
	}
	if x.termSeen || len(x.held) > 0 || x.relPend.Load() > 0 {
		return
	}
	// make sure some input has data
	var open []*pInput
	has := false
	for _, in := range x.inputs {
		if in.undelivered() {
			has = true
		}
		if !in.closeEnq {
			open = append(open, in)
		}
	}
	if !has {
		if len(open) == 0 {
			return
		}
		sort.Slice(open, func(i, j int) bool { return open[i].P < open[j].P })
		in := open[x.rng.IntN(len(open))]
		in.write(1 + x.rng.IntN(3))
		x.res.Written += in.enq - in.recv
		x.logf("probe: wrote to priority %d", in.P)
	}
	x.ctl.SetPhase("await-delivery-with-nothing-in-flight", "C06")
	before := x.res.Received + x.res.Stolen
	ok := x.await(prioL, func() bool { return x.res.Received+x.res.Stolen > before })
	x.res.Probes++
	if !ok && !x.termSeen && !x.mon.applied.Load() {
		x.fail("C06", "no-progress-idle", "nothing in flight, no release outstanding and an input holds undelivered data, but nothing was delivered within %s (virtual)", prioL)
	}
}

// aloneProbe — C06 (b): a priority that alone has >= H items is granted all H handlers.
func (x *prioExec) aloneProbe(op POp) {
	in := x.inputs[op.P]
	if in == nil || in.closeEnq {
		return
	}
	// reach the empty state: everything delivered, released, and every release consumed
	if !x.reachEmpty() || len(x.held) > 0 {
		return
	}
	// The statement is asserted for data that is waiting in the buffer: with items trickling in
	// one by one the scheduler may by design wait for one more feedback (every uncrowded
	// priority must get at least one handler of the vacant ones) before topping up further.
	n := int(x.sc.H) + x.rng.IntN(3)
	if in.Cap < n {
		n = int(x.sc.H)
	}
	if in.Cap < n {
		return
	}
	in.write(n)
	x.res.Written += n
	x.logf("alone probe: %d items to priority %d only", n, op.P)
	x.ctl.SetPhase("await-all-handlers-for-single-priority", "C06")
	ok := x.await(prioL+time.Duration(n)*200*time.Nanosecond, func() bool { return len(x.held) >= int(x.sc.H) })
	x.res.AloneProbes++
	if !ok && !x.termSeen && !x.mon.applied.Load() {
		x.fail("C06", "alone-not-granted-all", "priority %d alone has %d items and nothing is in flight, but only %d of %d handlers were occupied within the progress window (no release issued)", op.P, n, len(x.held), x.sc.H)
	}
}

// reachEmpty releases and drains until nothing is in flight and every written item was
// delivered; false if that state could not be reached.
func (x *prioExec) reachEmpty() bool {
	for i := 0; i < 400 && !x.termSeen; i++ {
		x.startRelease(x.pickRelease(POp{Mode: "all"}))
		x.settle()
		empty := len(x.held) == 0 && x.relPend.Load() == 0 && (x.sys.fbLen == nil || x.sys.fbLen() == 0)
		for _, o := range x.inputs {
			if o.undelivered() || o.enq > o.recv {
				empty = false
			}
		}
		if empty {
			return !x.termSeen
		}
	}
	return false
}

// loneBurstProbe — C06: starting from the empty state, one priority alone receives data in
// several bursts while nothing is released. As long as fewer than H of its items are in flight
// and it has an undelivered item, another item must arrive within L - unless the scheduler's
// documented wait applies: the lone priority is above its share and the vacant handlers cannot
// be divided among the other (uncrowded) priorities so that each gets at least one (the divider
// itself is asked). That wait ends the probe; it is not a violation.
func (x *prioExec) loneBurstProbe(op POp) {
	in := x.inputs[op.P]
	if in == nil || in.closeEnq || !x.reachEmpty() {
		return
	}
	var others []uint
	if x.sc.isV1() {
		for p := range x.inputs {
			if p != op.P {
				others = append(others, p)
			}
		}
	} else {
		for _, spec := range x.sc.Inputs {
			if spec.P != op.P {
				others = append(others, spec.P)
			}
		}
	}
	sort.Slice(others, func(i, j int) bool { return others[i] > others[j] })
	H := int(x.sc.H)
	legitWait := func(k int) bool {
		v := H - k
		if v <= 0 {
			return true
		}
		if uint(k) <= x.shares[op.P] || len(others) == 0 {
			return false
		}
		d := map[uint]uint{}
		x.div(others, uint(v), d)
		for _, q := range others {
			if d[q] == 0 {
				return true
			}
		}
		return false
	}
	x.res.LoneBursts++
	written := 0
	for burst := 0; burst < 4 && written <= H && !x.termSeen; burst++ {
		n := 1 + x.rng.IntN(H)
		if in.Cap > 0 && n > in.Cap {
			n = in.Cap
		}
		in.write(n)
		x.res.Written += n
		written += n
		x.logf("lone burst #%d: %d items to priority %d (held %d)", burst, n, op.P, len(x.held))
		for !x.termSeen {
			x.ctl.SetPhase("lone-priority-burst", "C06")
			x.settle()
			k := len(x.held)
			if k >= H || !in.undelivered() {
				x.res.LoneSteps += n // the burst went through (or all handlers are occupied) without any release
				break
			}
			if legitWait(k) {
				x.res.LoneLegitWaits++
				x.logf("lone burst: scheduler may wait for a feedback at %d of %d (vacant handlers cannot give every other priority one)", k, H)
				return
			}
			before := x.res.Received + x.res.Stolen
			if x.await(prioL, func() bool { return x.res.Received+x.res.Stolen > before }) {
				continue
			}
			if !x.termSeen && !x.mon.applied.Load() {
				x.fail("C06", "lone-burst-stalled", "priority %d is alone in having data (an undelivered item is waiting) and alone in flight with %d of %d handlers, its share is %d and the %d vacant handlers can give every other priority one, but nothing more was delivered within %s (virtual) although no release is needed", op.P, k, H, x.shares[op.P], H-k, prioL)
			}
			return
		}
	}
}

// saturationCheckpoint — C05: once the issued releases are consumed every handler is occupied.
func (x *prioExec) saturationCheckpoint() {
	if !x.sc.Saturate || !x.armed() {
		return
	}
	if x.satPaused {
		// first checkpoint after a removal: the call must have returned (the shares of the
		// remaining set are in place then) and nothing of the removed priority may be left in
		// flight; whatever still is gets released first
		if !x.awaitCtl() {
			return
		}
		stale := func() bool {
			for _, d := range x.held {
				if _, ok := x.shares[d.Tag]; !ok {
					return true
				}
			}
			return false
		}
		for i := 0; i < 8 && stale() && !x.termSeen; i++ {
			x.startRelease(x.pickRelease(POp{Mode: "all"}))
			x.settle()
		}
		if stale() || !x.armed() {
			return
		}
		// what is in flight now was partly handed out while the configuration was changing:
		// the property speaks about a configured set, so everything is released once more and
		// the refill - made entirely under the new shares - is what gets judged
		x.startRelease(x.pickRelease(POp{Mode: "all"}))
		x.settle()
		if !x.armed() || stale() {
			return
		}
		x.satPaused = false
	}
	x.ctl.SetPhase("await-full-occupation-under-saturation", "C05")
	ok := x.await(prioL, func() bool { return len(x.held) >= int(x.sc.H) })
	if !x.armed() {
		return
	}
	if !ok && x.mon.applied.Load() {
		return
	}
	if !ok {
		x.fail("C05", "not-refilled", "under saturation with no release outstanding only %d of %d handlers are occupied after %s (held %v, shares %v)", len(x.held), x.sc.H, prioL, x.heldBy, x.shares)
		return
	}
	for p, s := range x.shares {
		if uint(x.heldBy[p]) != s {
			x.fail("C05", "share-mismatch", "under saturation with all %d handlers occupied priority %d holds %d, its share is %d (held %v, shares %v)", x.sc.H, p, x.heldBy[p], s, x.heldBy, x.shares)
			return
		}
	}
	x.res.SatChecks++
}

// holdCheck — C07: with one release withheld or one idle input still open the discipline must
// stay open, for as long as we care to look (op.D virtual ns, observed at quiescent points).
func (x *prioExec) holdCheck(op POp) {
	x.ctl.SetPhase("hold-check", "C06")
	steps := 4
	for i := 0; i < steps && !x.termSeen; i++ {
		time.Sleep(time.Duration(op.D / int64(steps)))
		synctest.Wait()
		x.pull() // a closure observed here is judged by checkTermination
		if !x.termSeen {
			x.res.HoldChecks++
		}
		if x.gracefulRt.Load() && !x.stopIssued && !x.censusAtGraceful {
			// C19: once GracefulStop() has returned no goroutine started by the discipline remains
			x.censusAtGraceful = true
			if left := bubbleCensus(x.ctl); left != "" {
				x.fail("C19", "leak-after-graceful-return:"+x.sc.Ver, "GracefulStop() has returned but goroutine(s) started by the discipline remain (1us virtual later, blocked): %s", firstLines(left, 10))
			}
		}
	}
}

// awaitCtl lets the previous control call return (calls are issued one at a time so that
// the harness' model of the registered channels stays unambiguous). Control calls block
// while the scheduler waits for feedback, so held items are released one by one meanwhile.
func (x *prioExec) awaitCtl() bool {
	pending := func() bool {
		for _, c := range x.ctls {
			if !c.done.Load() {
				return true
			}
		}
		return false
	}
	x.ctl.SetPhase("await-control-call-return", "C17")
	for i := 0; pending() && !x.termSeen; i++ {
		x.settle()
		if !pending() {
			break
		}
		if len(x.held) > 0 {
			x.startRelease(x.pickRelease(POp{Mode: "one"}))
			continue
		}
		// (items may still arrive - a slow divider makes the quiescence window of settle() too
		// short - and must then be released like the others)
		if i <= 20000 && x.await(prioL, func() bool { return !pending() || len(x.held) > 0 }) {
			continue
		}
		{
			x.fail("C17", "ctl-hangs", "a control call (AddInput/RemoveInput) did not return within %s (virtual) although nothing is in flight", prioL)
			fb := -1
			if x.sys.fbLen != nil {
				fb = x.sys.fbLen()
			}
			x.logf("state: held=%d outLen=%d fbLen=%d relPend=%d received=%d", len(x.held), x.sys.outLen(), fb, x.relPend.Load(), x.res.Received)
			x.logf("goroutines of the bubble: %s", bubbleStacks(x.ctl.bubbleID.Load()))
			return false
		}
	}
	x.pollCtl()
	return !x.termSeen
}

func (x *prioExec) addInput(op POp) {
	if x.sys.addInput == nil || x.stopIssued {
		return
	}
	if !x.awaitCtl() {
		return
	}
	x.mon.allow(op.P, true)
	in := newPInput(op.P, x.nextCh, op.Cap, 4096)
	x.nextCh++
	x.chans = append(x.chans, in)
	old := x.inputs[op.P]
	x.inputs[op.P] = in
	if op.Mode == "nil-channel" {
		// AddInput(nil, p): a nil channel is a channel - nothing can be read from it, and it
		// replaces whatever was registered for p like any other channel does
		in.ch, in.isNil = nil, true
		x.res.NilAdds++
	} else {
		in.startWriter(x.abort, &x.wg)
	}
	c := &ctlCall{op: "AddInput", p: op.P, in: in, old: old}
	x.ctls = append(x.ctls, c)
	x.res.CtlOps++
	x.logf("AddInput(channel #%d cap %d, priority %d) called", in.ID, op.Cap, op.P)
	thenGraceful := op.Mode == "then-graceful" && x.sys.graceful != nil && !x.gracefulOn
	if thenGraceful {
		// GracefulStop() is called by the same goroutine the instant AddInput() has returned
		x.gracefulOn = true
		x.logf("... followed at once by GracefulStop()")
	}
	x.wg.Add(1)
	go func() {
		defer x.wg.Done()
		x.sys.addInput(in)
		c.done.Store(true)
		if thenGraceful {
			x.sys.graceful()
			x.gracefulRt.Store(true)
		}
	}()
}

// reAddInput calls AddInput with the channel that is already registered for the priority:
// nothing changes - not the channel, not the set of priorities, not the shares.
func (x *prioExec) reAddInput(op POp) {
	in := x.inputs[op.P]
	if x.sys.addInput == nil || x.stopIssued || in == nil {
		return
	}
	if !x.awaitCtl() {
		return
	}
	c := &ctlCall{op: "AddInput(same channel)", p: op.P, in: in}
	x.ctls = append(x.ctls, c)
	x.res.CtlOps++
	x.res.ReAdds++
	x.logf("AddInput(channel #%d again, priority %d) called", in.ID, op.P)
	x.wg.Add(1)
	go func() {
		defer x.wg.Done()
		x.sys.addInput(in)
		c.done.Store(true)
	}()
}

// addOldInput registers a priority again with the very channel object that was registered for
// it before RemoveInput (still open, possibly still holding items): from the moment AddInput
// returns it is an input like any other. Falls back to a fresh channel when there is none.
func (x *prioExec) addOldInput(op POp) {
	if x.sys.addInput == nil || x.stopIssued {
		return
	}
	var old *pInput
	for _, in := range x.chans {
		if in.P == op.P && in.removed && in.removedByRm && !in.closeEnq && in.closedAt.Load() == 0 && !in.isNil {
			old = in
		}
	}
	if old == nil || x.inputs[op.P] != nil {
		x.addInput(op)
		return
	}
	if !x.awaitCtl() {
		return
	}
	x.mon.allow(op.P, true)
	old.removed, old.removedByRm, old.takenAt = false, false, -1
	x.inputs[op.P] = old
	c := &ctlCall{op: "AddInput(original channel)", p: op.P, in: old}
	x.ctls = append(x.ctls, c)
	x.res.CtlOps++
	x.res.OldReAdds++
	x.logf("AddInput(channel #%d - the one removed earlier, priority %d) called", old.ID, op.P)
	x.wg.Add(1)
	go func() {
		defer x.wg.Done()
		x.sys.addInput(old)
		c.done.Store(true)
	}()
}

func (x *prioExec) removeInput(op POp) {
	if x.sys.removeInput == nil || x.stopIssued {
		return
	}
	if !x.awaitCtl() {
		return
	}
	old := x.inputs[op.P] // nil: the priority is not registered and the call must change nothing
	delete(x.inputs, op.P)
	if x.sc.Saturate && old != nil {
		x.satPaused = true // from the call on the library may already work with the new shares
	}
	if old == nil {
		x.res.AbsentRemovals++
	}
	c := &ctlCall{op: "RemoveInput", p: op.P, in: old, old: old}
	x.ctls = append(x.ctls, c)
	x.res.CtlOps++
	x.logf("RemoveInput(%d) called", op.P)
	x.wg.Add(1)
	go func() {
		defer x.wg.Done()
		x.sys.removeInput(op.P)
		c.done.Store(true)
	}()
}

func (x *prioExec) callGraceful() {
	if x.sys.graceful == nil || x.gracefulOn {
		return
	}
	// a control call still in progress must return first (AddInput racing with the end of the
	// discipline is outside the documented use)
	if len(x.ctls) > 0 && !x.awaitCtl() {
		return
	}
	x.gracefulOn = true
	if x.mon != nil {
		x.mon.gracefulRequested.Store(true)
	}
	x.logf("GracefulStop() called")
	x.wg.Add(1)
	go func() {
		defer x.wg.Done()
		x.sys.graceful()
		// C19: at the instant GracefulStop() returns - also when it was cut short by Stop() or a
		// cancel - nothing the discipline started may still be blocked somewhere
		// (only when a Stop() / cancel has been issued meanwhile: an undisturbed graceful stop is
		// censused by the stepper, and a goroutine dump stops the world for every worker)
		if x.stopIssuedA.Load() {
			for _, g := range censusBubble(x.ctl.bubbleID.Load()) {
				if blockedState(g.State) {
					x.blockedAtGracefulReturn.CompareAndSwap(nil, g.Text)
					break
				}
			}
		}
		x.gracefulRt.Store(true)
	}()
}

// ---------------------------------------------------------------------------------------
// epilogue: close inputs, release everything progressively, expect delivery and termination

func (x *prioExec) allDelivered() bool {
	for _, in := range x.chans {
		if in.removed {
			// what the discipline took before the removal returned is still delivered
			if int64(in.recv) < in.takenAt {
				return false
			}
			continue
		}
		if in.recv < in.enq {
			return false
		}
	}
	return true
}

func (x *prioExec) epilogue() {
	if x.stopIssued {
		return
	}
	// a control call still in progress must return before termination is requested (AddInput
	// racing with the end of the discipline is outside the documented use)
	if len(x.ctls) > 0 && !x.awaitCtl() {
		return
	}
	for _, in := range x.inputs {
		if !in.isNil {
			in.closeLater()
		}
	}
	if x.sc.isV1() {
		x.callGraceful()
	}
	if x.sc.NeverEnds {
		// everything else is closed, delivered and released; the nil input keeps the discipline
		// alive for as long as we care to look (a closure is judged by checkTermination: that
		// input was never closed)
		for i := 0; i < 40 && !x.termSeen; i++ {
			x.startRelease(x.pickRelease(POp{Mode: "all"}))
			x.settle()
			done := len(x.held) == 0
			for _, in := range x.inputs {
				if !in.isNil && in.recv < in.enq {
					done = false
				}
			}
			if done {
				break
			}
		}
		x.holdCheck(POp{D: 3000})
		if !x.termSeen {
			x.res.NeverEndedHeld = true
		}
		if x.sys.stop != nil { // end of the scenario: v1 is stopped (its context may be nil)
			x.stopIssued = true
			x.stopIssuedA.Store(true)
			stopped := make(chan struct{})
			go func() { x.sys.stop(); close(stopped) }()
			select {
			case <-stopped:
			case <-time.After(prioL):
				x.res.Aborted += " Stop() at the end of a never-ending scenario did not return"
			}
		}
		return
	}
	faulted := func() bool { return x.mon != nil && x.mon.faulted.Load() }
	x.ctl.SetPhase("epilogue-deliver-everything", "C06")
	for !x.termSeen {
		x.startRelease(x.pickRelease(POp{Mode: "all"}))
		if x.allDelivered() && len(x.held) == 0 {
			break
		}
		before := x.res.Received + x.res.Stolen // (what a second consumer took is progress of the input too)
		ok := x.await(prioL, func() bool { return x.res.Received+x.res.Stolen > before || faulted() })
		if faulted() {
			break
		}
		if !ok && !x.termSeen {
			if x.failed {
				x.res.Aborted = "no delivery in the epilogue after an earlier violation"
				return
			}
			und := 0
			for _, in := range x.chans {
				if !in.removed {
					und += in.enq - in.recv
				}
			}
			x.fail("C06", "no-progress-epilogue", "handlers release every item at once, %d written items are still undelivered, but nothing was delivered within %s (virtual)", und, prioL)
			// the same observation under the properties that promise delivery of everything written
			x.fail("C02", "never-delivered", "%d written items were never delivered although every input was closed and handlers released every item at once (waited %s virtual after the last delivery)", und, prioL)
			if x.res.CtlOps > 0 {
				x.fail("C17", "never-delivered-after-control-calls", "after AddInput / RemoveInput calls %d written items of registered channels were never delivered and the discipline did not terminate gracefully", und)
			}
			return
		}
	}
	if faulted() {
		x.afterFault()
		return
	}
	// all ctl calls must have returned by now (releases have been flowing)
	x.ctl.SetPhase("await-termination", "C07")
	deadline := time.Now().Add(prioL)
	for !x.errClosed && time.Now().Before(deadline) {
		if faulted() {
			// the injected fault hit one of the very last divisions
			x.afterFault()
			return
		}
		x.startRelease(x.pickRelease(POp{Mode: "all"}))
		if x.termSeen {
			// Output() is already closed: only Err() is left to wait for (virtual time must pass)
			time.Sleep(100 * time.Nanosecond)
			x.pollErr()
			continue
		}
		x.await(min(time.Until(deadline), 2*time.Microsecond), func() bool { return x.errClosed || len(x.held) > 0 })
	}
	if !x.errClosed && faulted() {
		x.afterFault()
		return
	}
	if !x.errClosed {
		x.fail("C07", "no-termination", "all inputs are closed and drained and every delivered item was released, but Err() was not closed within %s (virtual)", prioL)
		if x.res.CtlOps > 0 {
			x.fail("C17", "no-termination-after-control-calls", "after AddInput / RemoveInput calls: every registered input is closed and drained (or none is registered any more), every delivered item was released and GracefulStop() was called, but the discipline did not terminate within %s (virtual)", prioL)
		}
		x.logf("goroutines of the bubble: %s", bubbleStacks(x.ctl.bubbleID.Load()))
		return
	}
	synctest.Wait()
	if x.sc.Ver == "v2" {
		if _, st := x.sys.tryRecv(); st != recvClosed {
			x.fail("C07", "output-open", "Err() is closed but Output() is not")
		} else {
			x.onOutputClosed()
		}
	}
	if x.sc.isV1() && !x.gracefulRt.Load() {
		time.Sleep(time.Microsecond)
		synctest.Wait()
		if !x.gracefulRt.Load() {
			x.fail("C07", "graceful-not-returned", "the discipline terminated but GracefulStop() has not returned")
		}
	}
	for _, c := range x.ctls {
		if !c.done.Load() {
			x.fail("C17", "ctl-not-returned", "%s(%d) had not returned when the discipline terminated", c.op, c.p)
		}
	}
}

// census — C19: after termination no goroutine started by the discipline remains.
func (x *prioExec) census() {
	if !x.res.Terminated {
		return
	}
	synctest.Wait()
	time.Sleep(time.Microsecond)
	synctest.Wait()
	left := censusBubble(x.ctl.bubbleID.Load())
	x.res.CensusTaken = true
	x.res.Leaked = len(left)
	if len(left) > 0 {
		var sb strings.Builder
		for _, g := range left {
			sb.WriteString(g.Text + "\n\n")
		}
		x.fail("C19", "leak:"+x.sc.Ver+":"+x.res.TermWay, "%d goroutine(s) started by the discipline remain after termination (%s): %s", len(left), x.res.TermWay, firstLines(sb.String(), 12))
	}
}

func firstLines(s string, n int) string {
	ls := strings.Split(s, "\n")
	if len(ls) > n {
		ls = ls[:n]
	}
	return strings.Join(ls, " | ")
}

// ---------------------------------------------------------------------------------------
// entry point

func runPrioV(sc PrioScenario, ctl *bubbleCtl) *prioResult {
	res := &prioResult{HeldVectors: map[string]struct{}{}}
	x := &prioExec{sc: sc, ctl: ctl, res: res, base: time.Now(), inputs: map[uint]*pInput{}, heldBy: map[uint]int{}, abort: make(chan struct{})}
	x.rng = rand.New(rand.NewPCG(sc.Seed, sc.Seed^0xabcdef))
	total := 0
	for _, op := range sc.Script {
		if op.K == "W" {
			total += op.N
		}
	}
	for _, spec := range sc.Inputs {
		if spec.Writers > 0 {
			total += spec.Writers + spec.Cap + 40*int(sc.H) // what parked writers may get through (simple: capacity of the entered channel)
		}
	}
	var prios []uint
	for _, spec := range sc.Inputs {
		in := newPInput(spec.P, x.nextCh, spec.Cap, 8192)
		x.nextCh++
		in.prefill(spec.Prefill)
		res.Written += spec.Prefill
		total += spec.Prefill
		in.multi = spec.Writers
		if spec.NilChan {
			in.ch, in.isNil = nil, true
		}
		in.thief = spec.Thief && spec.Cap > 0
		x.hasThief = x.hasThief || in.thief
		x.inputs[spec.P] = in
		x.chans = append(x.chans, in)
		prios = append(prios, spec.P)
	}
	div := customDivider(sc.Divider, sc.DivSeed)
	x.shares = sharesOf(div, prios, sc.H)
	x.div = div
	x.mon = newDivMonitor(x, div)
	exitDelay := []time.Duration{0, 10 * time.Nanosecond, 300 * time.Nanosecond, 3 * time.Microsecond}[sc.Seed%4] // the longest outlives the 1us the C19 census waits
	nilCtx := sc.isV1() && (sc.Seed/3)%4 == 0
	for _, op := range sc.Script {
		if op.K == "cancel" {
			nilCtx = false
		}
	}
	b := prioBuild{Ver: sc.Ver, Div: x.mon.divide, DivV1: x.mon.divideV1, HandleExitDelay: exitDelay, NilCtx: nilCtx, ReuseInputsMap: []int{0, 1, 0, 2, 0, 3}[(sc.Seed/5)%6], H: sc.H, OutCap: sc.OutCap, FbCap: sc.FbCap, Abort: x.abort, Entered: total + 8*int(sc.H) + 4096}
	for _, in := range x.chans {
		b.Inputs = append(b.Inputs, in)
	}
	x.ignoreErr = (sc.Ver == "v2" || sc.Ver == "v1s" || sc.Ver == "v1") && sc.Fault != nil && ((sc.Seed/7)%3 == 0 || sc.IgnoreErr)
	parked := false
	for _, in := range x.chans {
		if in.multi > 0 {
			in.startParked(x.abort)
			parked = true
		}
	}
	if parked {
		synctest.Wait() // every parked writer sits in its send before the discipline exists
	}
	sys, err := buildPrio(b)
	x.mon.created.Store(true)
	if err != nil {
		res.Rejected = err.Error()
		res.RejectedErr = err
		res.DivCalls = int(x.mon.calls.Load())
		res.FaultHit = x.mon.faulted.Load()
		if res.FaultHit && !errors.Is(err, v2prio.ErrDividerBad) && !errors.Is(err, v1prio.ErrDividerBad) {
			x.fail("C15", "constructor-wrong-error", "divider fault during creation (%s): New returned %q instead of ErrDividerBad", x.mon.faultDesc, err.Error())
		}
		x.mon.report()
		close(x.abort) // parked writers were started before the constructor was called
		for _, in := range x.chans {
			if in.multi > 0 {
				in.mwWG.Wait()
			}
		}
		return res
	}
	if x.mon.faulted.Load() && !sc.isV1() && sc.Fault.Trigger == "" && sc.Fault.At == 0 {
		// call #0 of a v2 discipline is the share computation inside New (later calls may
		// already come from the scheduler goroutine, which New starts before it returns)
		res.FaultHit = true
		x.fail("C15", "constructor-accepted-fault", "divider fault during creation (%s) but New returned no error", x.mon.faultDesc)
	}
	x.sys = sys
	for _, in := range x.chans {
		if in.multi == 0 && !in.isNil {
			in.startWriter(x.abort, &x.wg)
		}
		if in.thief {
			in.startThief(x.abort, &x.wg, sc.Seed+uint64(in.ID))
		}
	}
	for _, op := range sc.Script {
		if x.failed || x.termSeen || x.stopIssued || (x.mon.faulted.Load() && sc.Fault != nil) {
			break
		}
		x.do(op)
	}
	switch {
	case x.stopIssued:
	case x.mon.faulted.Load() && sc.Fault != nil:
		x.afterFault()
	default:
		x.epilogue()
	}
	x.census()
	if v := x.blockedAtGracefulReturn.Load(); v != nil {
		x.fail("C19", "blocked-goroutine-at-graceful-return:"+x.sc.Ver, "GracefulStop() returned while a goroutine started by the discipline was blocked: %s", firstLines(v.(string), 10))
	}
	x.mon.report()
	res.DivCalls = int(x.mon.calls.Load())
	res.FaultHit = x.mon.faulted.Load()
	two := 0
	for _, in := range x.chans {
		if in.recv >= 2 {
			two++
		}
	}
	res.PriosWith2 = two
	if sc.Starved && !x.unstarved && !x.termSeen && x.sys.stop != nil {
		// a starved discipline is ended by Stop() (its context may be nil)
		x.stopIssued = true
		x.stopIssuedA.Store(true)
		stopped := make(chan struct{})
		go func() { x.sys.stop(); close(stopped) }()
		select {
		case <-stopped:
		case <-time.After(prioL):
			res.Aborted += " Stop() of a starved discipline did not return"
		}
	}
	// teardown of the harness goroutines; leftovers in old unbuffered channels are taken by us
	close(x.abort)
	done := make(chan struct{})
	go func() { x.wg.Wait(); close(done) }()
	select {
	case <-done:
	case <-time.After(time.Millisecond):
		res.Aborted += " harness goroutines did not end"
	}
	return res
}
