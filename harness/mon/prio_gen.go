package mon

// Scenario generator for the priority disciplines (shared by C01, C02, C05, C06, C07, C15,
// C16, C17, C19, C20). Everything is derived from the case PRNG.

import (
	"math/rand/v2"
	"sort"
)

type prioGen struct {
	Vers     []string
	Dividers []string
	Mode     string // general | saturate | progress | terminate | stop | addrm
	MaxH     uint
	Starve   bool // v1 variants only: H for which the divider leaves some priority without a share (accepted by the v1 constructors)
}

var prioValuePools = [][]uint{
	{5, 4, 3, 2, 1}, {70, 20, 10, 5, 1}, {9, 8, 7, 6, 5}, {3, 2, 1}, {2, 1}, {10, 1}, {1000, 100, 7, 3, 1}, {1000, 1},
}

func genPriorities(rng *rand.Rand) []uint {
	var out []uint
	if rng.IntN(25) == 0 {
		// values beyond the signed range (the divider must be able to take them: see the caller)
		n := 1 + rng.IntN(3)
		set := map[uint]bool{}
		for len(set) < n {
			set[[]uint{^uint(0), ^uint(0) - 1, 1 << 63, 1<<63 + 1, 1<<63 - 1, 1 << 62}[rng.IntN(6)]] = true
		}
		for p := range set {
			out = append(out, p)
		}
		for _, p := range []uint{2, 1, 7}[:rng.IntN(3)] {
			out = append(out, p)
		}
		sort.Slice(out, func(i, j int) bool { return out[i] > out[j] })
		return out
	}
	if rng.IntN(30) == 0 {
		// many priorities (order-based dividers keep H small)
		n := 6 + rng.IntN(7)
		set := map[uint]bool{}
		for len(set) < n {
			set[uint(1+rng.IntN(60))] = true
		}
		for p := range set {
			out = append(out, p)
		}
		sort.Slice(out, func(i, j int) bool { return out[i] > out[j] })
		return out
	}
	if rng.IntN(30) == 0 {
		// priority 0 is a legal map key: an order-based divider serves it like any other
		out = []uint{uint(2 + rng.IntN(5)), 1, 0}[rng.IntN(2):]
		return out
	}
	switch k := rng.IntN(10); {
	case k < 7:
		pool := prioValuePools[rng.IntN(6)]
		n := 1 + rng.IntN(len(pool))
		for _, i := range rng.Perm(len(pool))[:n] {
			out = append(out, pool[i])
		}
	case k < 8:
		pool := prioValuePools[6+rng.IntN(2)]
		n := 1 + rng.IntN(len(pool))
		for _, i := range rng.Perm(len(pool))[:n] {
			out = append(out, pool[i])
		}
	default:
		out = genPrioList(rng, 5, 1<<uint(1+rng.IntN(20)))
	}
	sort.Slice(out, func(i, j int) bool { return out[i] > out[j] })
	return out
}

// minHandlers scans upward for the smallest H for which the divider gives every priority of
// the full set a non-zero share (what the v2 constructor requires); 0 if none up to limit.
func minHandlers(div divFn, prios []uint, limit uint) uint {
	for q := uint(len(prios)); q <= limit; q++ {
		d := sharesOf(div, prios, q)
		ok := true
		for _, p := range prios {
			if d[p] == 0 {
				ok = false
				break
			}
		}
		if ok {
			return q
		}
	}
	return 0
}

// genStarvedRm: a v1 configuration in which some priority m has no share until another priority
// X is removed; after RemoveInput(X) has returned every remaining priority (and every subset)
// has one, so everything written to the remaining inputs must be delivered again.
func genStarvedRm(rng *rand.Rand, g prioGen) PrioScenario {
	sc := PrioScenario{Seed: rng.Uint64(), Ver: "v1"}
	var prios []uint
	var m, X uint
	found := false
	for try := 0; try < 40 && !found; try++ {
		sc.Divider = g.Dividers[rng.IntN(len(g.Dividers))]
		sc.DivSeed = rng.Uint64N(1000)
		div := customDivider(sc.Divider, sc.DivSeed)
		pool := prioValuePools[rng.IntN(6)]
		n := min(3+rng.IntN(3), len(pool))
		prios = prios[:0]
		for _, i := range rng.Perm(len(pool))[:n] {
			prios = append(prios, pool[i])
		}
		sort.Slice(prios, func(i, j int) bool { return prios[i] > prios[j] })
		for _, h := range rng.Perm(24) {
			H := uint(h + 1)
			d := sharesOf(div, prios, H)
			var zeros []uint
			for _, p := range prios {
				if d[p] == 0 {
					zeros = append(zeros, p)
				}
			}
			if len(zeros) == 0 {
				continue
			}
			m = zeros[rng.IntN(len(zeros))]
			for _, xi := range rng.Perm(len(prios)) {
				if prios[xi] == m {
					continue
				}
				rest := append(append([]uint{}, prios[:xi]...), prios[xi+1:]...)
				if bruteNonFatal(rest, func(p []uint, q uint, dd map[uint]uint) { div(p, q, dd) }, H) {
					X, sc.H, found = prios[xi], H, true
					break
				}
			}
			if found {
				break
			}
		}
	}
	if !found {
		sc.Divider, prios, sc.H, m, X = "fair", []uint{5, 4, 3, 2}, 3, 2, 5
	}
	H := int(sc.H)
	sc.Starved = true
	sc.StarveEndsAtRm = &X
	sc.OutCap = []int{0, 1, H, 2*H + 4}[rng.IntN(4)]
	sc.FbCap = []int{0, 1, H, 2 * H}[rng.IntN(4)]
	for _, p := range prios {
		sc.Inputs = append(sc.Inputs, PInputSpec{P: p, Cap: []int{0, 1, 4 * H}[rng.IntN(3)]})
	}
	w := func(p uint) { sc.Script = append(sc.Script, POp{K: "W", P: p, N: 1 + rng.IntN(2*H+2)}) }
	rel := func() {
		sc.Script = append(sc.Script, POp{K: "D"}, POp{K: "R", Mode: []string{"all", "random", "oldest"}[rng.IntN(3)], N: 1 + rng.IntN(H)}, POp{K: "D"})
	}
	for i := 0; i < 1+rng.IntN(3); i++ {
		w(prios[rng.IntN(len(prios))])
	}
	if rng.IntN(2) == 0 {
		w(m)
	}
	rel()
	sc.Script = append(sc.Script, POp{K: "rm", P: X}, POp{K: "D"}, POp{K: "R", Mode: "all"}, POp{K: "D"})
	w(m)
	for i := 0; i < rng.IntN(3); i++ {
		p := prios[rng.IntN(len(prios))]
		if p != X {
			w(p)
		}
	}
	rel()
	return sc
}

func genPrioScenario(rng *rand.Rand, g prioGen) PrioScenario {
	if g.Mode == "starvedrm" {
		return genStarvedRm(rng, g)
	}
	sc := PrioScenario{Seed: rng.Uint64()}
	sc.Ver = g.Vers[rng.IntN(len(g.Vers))]
	sc.Divider = g.Dividers[rng.IntN(len(g.Dividers))]
	sc.DivSeed = rng.Uint64N(1000)
	div := customDivider(sc.Divider, sc.DivSeed)
	maxH := g.MaxH
	if maxH == 0 {
		maxH = 64
	}
	// Rate is not monotone in H: H is moved up to the next value whose shares are all non-zero
	// (the v2 constructor's condition; for v1, whose constructor accepts everything,
	// configurations with a zero share are documented as fatal and are not driven). With
	// AddInput / RemoveInput every subset of the priorities that can be registered must be
	// non-fatal. Priority sets that need more than 700 handlers are redrawn.
	good := func(prios []uint, h uint) bool {
		if g.Mode == "addrm" {
			universe := append(append([]uint{}, prios...), 11, 12, 13)
			sort.Slice(universe, func(i, j int) bool { return universe[i] > universe[j] })
			u := universe[:0]
			for i, p := range universe {
				if i == 0 || universe[i-1] != p {
					u = append(u, p)
				}
			}
			return bruteNonFatal(u, func(p []uint, q uint, d map[uint]uint) { div(p, q, d) }, h)
		}
		d := sharesOf(div, prios, h)
		for _, p := range prios {
			if d[p] == 0 {
				return false
			}
		}
		return true
	}
	var prios []uint
	for try := 0; ; try++ {
		prios = genPriorities(rng)
		if try > 30 {
			prios = []uint{3, 2, 1}
		}
		if g.Starve && try <= 30 && rng.IntN(2) == 0 {
			// a few close values (and a small one): Rate rounds several parts up, runs out of
			// the dividend and leaves the last priorities without any entry in the distribution
			base, n := uint(4+rng.IntN(20)), 2+rng.IntN(4)
			prios = prios[:0]
			for i := n; i >= 1; i-- {
				prios = append(prios, base+uint(i))
			}
			if rng.IntN(2) == 0 {
				prios = append(prios, uint(1+rng.IntN(3)))
			}
			sc.Divider = "rate"
			div = customDivider(sc.Divider, sc.DivSeed)
		}
		if (prios[0] > 1<<40 || prios[len(prios)-1] == 0 || len(prios) > 5) && sc.Divider != "fair" && sc.Divider != "revfair" {
			// Rate / weight based dividers sum or scale the values: beyond 2^40 only the
			// order-based dividers are meaningful
			sc.Divider = []string{"fair", "revfair"}[rng.IntN(2)]
			div = customDivider(sc.Divider, sc.DivSeed)
		}
		if g.Mode == "addrm" {
			for i := range prios { // keep the universe dense so that small H are non-fatal
				prios[i] = prios[i]%80 + 1
			}
			sort.Slice(prios, func(i, j int) bool { return prios[i] > prios[j] })
			dedup := prios[:0]
			for i, p := range prios {
				if i == 0 || prios[i-1] != p {
					dedup = append(dedup, p)
				}
			}
			prios = dedup
		}
		lim := maxH
		if rng.IntN(12) == 0 {
			lim = 700 // occasionally a skewed set that needs hundreds of handlers
		}
		minH := uint(0)
		for q := uint(len(prios)); q <= lim; q++ {
			if good(prios, q) {
				minH = q
				break
			}
		}
		if minH == 0 {
			continue
		}
		switch k := rng.IntN(10); {
		case k < 3:
			sc.H = minH
		case k < 5:
			sc.H = minH + uint(rng.IntN(3))
		case k < 9:
			sc.H = minH + uint(rng.IntN(int(2*minH)+1))
		default:
			sc.H = minH + uint(64+rng.IntN(200))
		}
		if g.Mode == "saturate" && sc.H > 48 && minH <= 48 {
			sc.H = minH + uint(rng.IntN(int(48-minH)+1))
		}
		for sc.H <= 700 && !good(prios, sc.H) {
			sc.H++
		}
		if sc.H <= 700 {
			break
		}
	}
	if g.Starve && sc.isV1() {
		// the v1 constructors accept a HandlersQuantity for which some priority gets no share:
		// such a priority may starve, so nothing is claimed about progress, but the safety
		// properties (capacity, exactly-once, divider contract) hold there as everywhere
		div0 := func(prios []uint, h uint) bool {
			d := sharesOf(div, prios, h)
			for _, p := range prios {
				if d[p] == 0 {
					return true
				}
			}
			return false
		}
		var bad []uint
		for q := uint(1); q <= sc.H+8; q++ {
			if div0(prios, q) {
				bad = append(bad, q)
			}
		}
		if len(bad) > 0 {
			sc.H = bad[rng.IntN(len(bad))]
			sc.Starved = true
		}
	}
	if rng.IntN(25) == 0 && sc.H > 1 && !sc.isV1() {
		sc.H = uint(1 + rng.IntN(int(sc.H))) // sometimes below the minimum: the constructor must reject (v2)
	}
	H := int(sc.H)
	sc.OutCap = []int{0, 1, 2, H / 2, H, 2*H + 4, 1024}[rng.IntN(7)]
	sc.FbCap = []int{0, 1, H/10 + 1, H, 2 * H}[rng.IntN(5)]
	if sc.Ver == "v1" && g.Mode != "stop" && rng.IntN(2) == 0 {
		sc.OutCap = 4096 // large harness-owned output: every item the library hands out is parked there
	}

	perPrio := func() int { return rng.IntN(3*H + 6) }
	capOf := func(items int) int {
		switch rng.IntN(5) {
		case 0:
			return 0
		case 1:
			return 1
		case 2:
			return 2 + rng.IntN(4)
		default:
			return items + 1
		}
	}

	switch g.Mode {
	case "saturate":
		groups := 6 + rng.IntN(10)
		outCap := H/10 + len(prios) + 1
		if sc.isV1() {
			if sc.OutCap > 2*H+4 {
				sc.OutCap = 2*H + 4
			}
			outCap = sc.OutCap
		}
		m := (groups+3)*H + outCap + 2
		smallBuffers := H <= 16 && rng.IntN(3) == 0
		for _, p := range prios {
			if smallBuffers {
				// a small buffer kept full by parked writers: more of them than the discipline
				// can take between two quiescent points of the stepper
				c := 1 + rng.IntN(3)
				sc.Inputs = append(sc.Inputs, PInputSpec{P: p, Cap: c, Prefill: c, Writers: 2*H + outCap + 4})
				continue
			}
			sc.Inputs = append(sc.Inputs, PInputSpec{P: p, Cap: m, Prefill: m})
		}
		sc.Saturate = true
		removedOne := false
		sc.Script = append(sc.Script, POp{K: "D"}, POp{K: "X"})
		modes := []string{"one", "prio", "allbut1", "random", "all", "oldest", "newest"}
		for i := 0; i < groups; i++ {
			sc.Script = append(sc.Script, POp{K: "R", Mode: modes[rng.IntN(len(modes))], N: 1 + rng.IntN(H)})
			if rng.IntN(3) == 0 {
				sc.Script = append(sc.Script, POp{K: "S", D: int64(1 + rng.IntN(60))})
			}
			if rng.IntN(3) == 0 { // a second group landing while the first is being consumed
				sc.Script = append(sc.Script, POp{K: "R", Mode: modes[rng.IntN(len(modes))], N: 1 + rng.IntN(H)})
			}
			if sc.Ver == "v1" && rng.IntN(4) == 0 {
				// AddInput with the same channel for a configured priority: the configured
				// priorities, the inputs and the shares all stay what they were
				sc.Script = append(sc.Script, POp{K: "readd", P: prios[rng.IntN(len(prios))]})
			}
			if sc.Ver == "v1" && !smallBuffers && !removedOne && len(prios) >= 3 && i >= 2 && rng.IntN(5) == 0 {
				// RemoveInput of one saturated input: once its items have been released the
				// others share all the handlers according to the divider for the remaining set
				rest := make([]uint, 0, len(prios))
				victim := prios[rng.IntN(len(prios))]
				for _, p := range prios {
					if p != victim {
						rest = append(rest, p)
					}
				}
				if good(rest, sc.H) {
					removedOne = true
					sc.Script = append(sc.Script, POp{K: "rm", P: victim}, POp{K: "R", Mode: "all"}, POp{K: "D"}, POp{K: "R", Mode: "all"}, POp{K: "D"}, POp{K: "X"})
				}
			}
			sc.Script = append(sc.Script, POp{K: "D"}, POp{K: "X"})
		}
		return sc
	}

	left := map[uint]int{}
	for _, p := range prios {
		n := perPrio()
		if rng.IntN(6) == 0 {
			n = 0
		}
		c := capOf(n)
		pre := 0
		if c > 0 && rng.IntN(2) == 0 {
			pre = min(n, c, rng.IntN(c+1))
		}
		if g.Mode == "progress" && rng.IntN(3) == 0 && c > 0 && c < H+2 {
			c = H + 2 // room for a whole burst of H items (alone probe)
		}
		sc.Inputs = append(sc.Inputs, PInputSpec{P: p, Cap: c, Prefill: pre})
		left[p] = n - pre
	}
	if sc.Starved && rng.IntN(2) == 0 {
		// a priority without a share is the only one that has data: it works on handlers
		// borrowed from the idle ones
		d := sharesOf(div, prios, sc.H)
		var zero []int
		for i, p := range prios {
			if d[p] == 0 {
				zero = append(zero, i)
			}
		}
		if len(zero) > 0 {
			z := zero[rng.IntN(len(zero))]
			if rng.IntN(2) == 0 {
				z = zero[len(zero)-1]
			}
			for i := range sc.Inputs {
				sc.Inputs[i].Prefill = 0
			}
			sc.Inputs[z].Cap = 3*H + 6
			sc.Inputs[z].Prefill = 3*H + 6
			left[prios[z]] = 0
			sc.Script = append(sc.Script, POp{K: "D"})
			for i := rng.IntN(3); i > 0; i-- {
				sc.Script = append(sc.Script, POp{K: "R", Mode: []string{"one", "random", "all"}[rng.IntN(3)], N: 1 + rng.IntN(H)}, POp{K: "D"})
			}
		}
	}
	if g.Mode == "general" && !sc.Starved && rng.IntN(4) == 0 {
		// one buffered input has a second consumer: whatever it takes is not the discipline's
		var buffered []int
		for i, in := range sc.Inputs {
			if in.Cap > 0 {
				buffered = append(buffered, i)
			}
		}
		if len(buffered) > 0 {
			sc.Inputs[buffered[rng.IntN(len(buffered))]].Thief = true
		}
	}
	anyLeft := func() bool {
		for _, n := range left {
			if n > 0 {
				return true
			}
		}
		return false
	}
	relModes := []string{"one", "prio", "allbut1", "random", "random", "all", "oldest", "newest"}
	addW := func() {
		p := prios[rng.IntN(len(prios))]
		if left[p] <= 0 {
			return
		}
		n := 1 + rng.IntN(left[p])
		if rng.IntN(3) == 0 {
			n = 1
		}
		left[p] -= n
		sc.Script = append(sc.Script, POp{K: "W", P: p, N: n})
	}
	closed := map[uint]bool{}
	if g.Mode == "general" && len(prios) >= 2 && !sc.Starved && rng.IntN(8) == 0 {
		// one priority alone takes more than its share, its input is closed and seen drained
		// while those items are still held, and only then the others get data
		lone := prios[rng.IntN(len(prios))]
		if sh := int(sharesOf(div, prios, sc.H)[lone]); sh < H {
			k := sh + 1 + rng.IntN(H-sh)
			for i := range sc.Inputs {
				if sc.Inputs[i].P == lone {
					sc.Inputs[i].Cap, sc.Inputs[i].Prefill = k, 0
				} else {
					sc.Inputs[i].Prefill = 0
				}
			}
			left[lone] = 0
			closed[lone] = true
			sc.Script = append(sc.Script, POp{K: "W", P: lone, N: k}, POp{K: "D"}, POp{K: "C", P: lone}, POp{K: "D"})
			for _, p := range prios {
				if p != lone && left[p] > 0 {
					n := 1 + rng.IntN(left[p])
					left[p] -= n
					sc.Script = append(sc.Script, POp{K: "W", P: p, N: n})
				}
			}
			sc.Script = append(sc.Script, POp{K: "D"})
		}
	}
	if g.Mode == "general" && len(prios) >= 2 && !sc.Starved && len(sc.Script) == 0 && rng.IntN(10) == 0 {
		// an UNBUFFERED input is closed (and seen closed) while a few of its items are still held,
		// and the other inputs keep supplying data
		u := prios[rng.IntN(len(prios))]
		if sh := int(sharesOf(div, prios, sc.H)[u]); sh >= 2 {
			k := 1 + rng.IntN(sh-1)
			for i := range sc.Inputs {
				if sc.Inputs[i].P == u {
					sc.Inputs[i] = PInputSpec{P: u, Cap: 0}
				}
			}
			left[u] = 0
			closed[u] = true
			sc.Script = append(sc.Script, POp{K: "W", P: u, N: k}, POp{K: "D"}, POp{K: "C", P: u}, POp{K: "D"}, POp{K: "S", D: int64(5 + rng.IntN(40))})
			for _, p := range prios {
				if p != u {
					n := H + rng.IntN(H+1)
					sc.Script = append(sc.Script, POp{K: "W", P: p, N: n})
				}
			}
			sc.Script = append(sc.Script, POp{K: "D"})
		}
	}
	steps := 6 + rng.IntN(30)
	for i := 0; i < steps; i++ {
		switch k := rng.IntN(20); {
		case k < 6:
			addW()
		case k < 10:
			sc.Script = append(sc.Script, POp{K: "D"})
		case k < 14:
			sc.Script = append(sc.Script, POp{K: "R", Mode: relModes[rng.IntN(len(relModes))], N: 1 + rng.IntN(H)})
		case k < 16:
			sc.Script = append(sc.Script, POp{K: "S", D: int64(1 + rng.IntN(400))})
		case k < 17:
			// close an input: when it has nothing left to write, or (less often) early, while
			// its items are typically still held or buffered - later writes to it are dropped
			p := prios[rng.IntN(len(prios))]
			if !closed[p] && (left[p] <= 0 || rng.IntN(4) == 0) {
				closed[p] = true
				left[p] = 0
				sc.Script = append(sc.Script, POp{K: "C", P: p})
				if rng.IntN(2) == 0 {
					sc.Script = append(sc.Script, POp{K: "D"})
				}
			}
		case k < 18:
			if g.Mode == "progress" || g.Mode == "general" {
				sc.Script = append(sc.Script, POp{K: "P"})
			}
			if g.Mode == "progress" && (sc.Divider == "fair" || sc.Divider == "rate") && H <= 128 && rng.IntN(2) == 0 {
				p := prios[rng.IntN(len(prios))]
				if !closed[p] {
					sc.Script = append(sc.Script, POp{K: "B", P: p})
				}
			}
		case k < 19:
			if (g.Mode == "progress" || g.Mode == "general") && (sc.Divider == "fair" || sc.Divider == "rate") && H <= 128 {
				p := prios[rng.IntN(len(prios))]
				if !closed[p] {
					sc.Script = append(sc.Script, POp{K: []string{"A", "B", "B"}[rng.IntN(3)], P: p})
				}
			}
		default:
			addW()
			sc.Script = append(sc.Script, POp{K: "D"})
		}
	}
	for anyLeft() && len(sc.Script) < 200 {
		addW()
		if rng.IntN(2) == 0 {
			sc.Script = append(sc.Script, POp{K: "D"})
		}
		if rng.IntN(3) == 0 {
			sc.Script = append(sc.Script, POp{K: "R", Mode: relModes[rng.IntN(len(relModes))], N: 1 + rng.IntN(H)})
		}
	}

	if g.Mode == "progress" && rng.IntN(60) == 0 && H <= 32 {
		// progress must not depend on how long the discipline has been idle: a long quiet
		// period (several times the progress window), then the probe
		sc.Script = append(sc.Script, POp{K: "R", Mode: "all"}, POp{K: "D"}, POp{K: "S", D: int64(150000 + rng.IntN(150000))}, POp{K: "P"})
	}
	switch g.Mode {
	case "terminate":
		// all orders of {last input closes, last release, last item read}: withhold one release
		// or keep one idle input open for a while and look at the channels at quiescent points
		order := rng.Perm(len(prios))
		keepOpen := uint(0)
		variant := rng.IntN(3)
		// a long quiet period (several times the progress window) with one input open and idle:
		// termination must still be prompt once that input closes. Rare, because every idle
		// virtual nanosecond of the scheduler costs microseconds of real time.
		longIdle := rng.IntN(60) == 0 && H <= 32
		if longIdle {
			variant = 1
		}
		for i, idx := range order {
			p := prios[idx]
			if variant == 1 && i == len(order)-1 {
				keepOpen = p
				break
			}
			sc.Script = append(sc.Script, POp{K: "C", P: p})
			if rng.IntN(2) == 0 {
				sc.Script = append(sc.Script, POp{K: "D"})
			}
		}
		if sc.isV1() && rng.IntN(2) == 0 {
			sc.Script = append(sc.Script, POp{K: "graceful"})
		}
		sc.Script = append(sc.Script, POp{K: "D"})

		switch variant {
		case 0: // withhold one release
			sc.Script = append(sc.Script, POp{K: "R", Mode: "allbut1"}, POp{K: "D"}, POp{K: "R", Mode: "allbut1"}, POp{K: "D"},
				POp{K: "H", D: int64(200 + rng.IntN(5000))})
		case 1: // one idle input stays open
			sc.Script = append(sc.Script, POp{K: "R", Mode: "all"}, POp{K: "D"}, POp{K: "R", Mode: "all"}, POp{K: "D"},
				POp{K: "H", D: int64(200 + rng.IntN(5000))})
			if longIdle {
				sc.Script = append(sc.Script, POp{K: "S", D: int64(150000 + rng.IntN(150000))})
			}
			// (v2 rarely: a v2 discipline with a nil input can never be ended, its goroutines stay
			// behind in the abandoned bubble and every later goroutine dump has to walk over them)
			if !longIdle && !sc.Starved && (sc.Ver == "v1" || (sc.Ver == "v2" && rng.IntN(12) == 0)) && rng.IntN(5) == 0 {
				// the input that stays open is a nil channel: nothing can ever be read from it and it
				// can never be closed, so the discipline must never report termination on its own
				kept := sc.Script[:0:0]
				for _, op := range sc.Script {
					if (op.K == "W" || op.K == "C") && op.P == keepOpen {
						continue
					}
					kept = append(kept, op)
				}
				sc.Script = kept
				for i := range sc.Inputs {
					if sc.Inputs[i].P == keepOpen {
						sc.Inputs[i] = PInputSpec{P: keepOpen, NilChan: true}
					}
				}
				sc.NeverEnds = true
			} else {
				sc.Script = append(sc.Script, POp{K: "C", P: keepOpen})
			}
		default: // release everything but do not read the last items for a while (v1: they sit in the output)
			sc.Script = append(sc.Script, POp{K: "R", Mode: "all"}, POp{K: "S", D: int64(100 + rng.IntN(2000))})
		}
	case "stop":
		kind := []string{"stop", "stop", "cancel", "gstop"}[rng.IntN(4)]
		// the prefix decides the state: sometimes nobody drained at all (output full / producers blocked)
		if rng.IntN(3) == 0 {
			var pre []POp
			for _, op := range sc.Script {
				if op.K == "W" {
					pre = append(pre, op)
				}
			}
			if rng.IntN(2) == 0 {
				pre = append(pre, POp{K: "D"}) // all handlers busy, nothing released
			} else {
				pre = append(pre, POp{K: "S", D: int64(50 + rng.IntN(500))}) // consumer not reading
			}
			sc.Script = pre
		} else {
			cut := rng.IntN(len(sc.Script) + 1)
			sc.Script = sc.Script[:cut:cut]
		}
		sc.Script = append(sc.Script, POp{K: kind, D: int64(rng.IntN(300)), N: rng.IntN(4)})
		if rng.IntN(6) == 0 && kind != "gstop" {
			// right after the constructor has returned, without letting anything settle
			sc.Script = []POp{{K: kind, D: int64(rng.IntN(300)), N: rng.IntN(4), Mode: "at-once"}}
		}
	case "addrm":
		// interleave control calls with the traffic: add a new priority, replace, remove, re-add
		extra := []uint{11, 12, 13}
		present := map[uint]bool{}
		for _, p := range prios {
			present[p] = true
		}
		if rng.IntN(8) == 0 {
			// the v1 discipline may be created without any input: everything is added later
			var pre []POp
			for _, in := range sc.Inputs {
				pre = append(pre, POp{K: "add", P: in.P, Cap: in.Cap})
				if in.Prefill > 0 {
					pre = append(pre, POp{K: "W", P: in.P, N: in.Prefill})
				}
			}
			sc.Inputs = nil
			sc.Script = append(pre, sc.Script...)
		}
		var out []POp
		nctl := min(2+rng.IntN(5), len(sc.Script)+1)
		at := map[int]bool{}
		for len(at) < nctl {
			at[rng.IntN(len(sc.Script)+1)] = true
		}
		removed := []uint{}
		nilUsed, nilPrio := false, uint(0)
		emit := func() {
			if rng.IntN(7) == 0 {
				// AddInput with the channel that is registered already: must change nothing
				var ps []uint
				for p, ok := range present {
					if ok {
						ps = append(ps, p)
					}
				}
				if len(ps) > 0 {
					sort.Slice(ps, func(i, j int) bool { return ps[i] < ps[j] })
					out = append(out, POp{K: "readd", P: ps[rng.IntN(len(ps))]})
					return
				}
			}
			switch rng.IntN(5) {
			case 0: // add a new priority
				p := extra[rng.IntN(len(extra))]
				n := 1 + rng.IntN(H+2)
				out = append(out, POp{K: "add", P: p, Cap: capOf(n)})
				present[p] = true
				out = append(out, POp{K: "W", P: p, N: n})
			case 1: // replace the channel of an existing priority
				var ps []uint
				for p, ok := range present {
					if ok {
						ps = append(ps, p)
					}
				}
				if len(ps) == 0 {
					return
				}
				sort.Slice(ps, func(i, j int) bool { return ps[i] < ps[j] })
				p := ps[rng.IntN(len(ps))]
				n := 1 + rng.IntN(H+2)
				if !nilUsed && len(ps) >= 2 && rng.IntN(6) == 0 {
					// replace the channel by a NIL channel while its writer still has items to
					// deliver: from the return of AddInput the old channel is not read any more;
					// the nil input is removed again before the end (it can never be closed)
					nilUsed = true
					nilPrio = p
					out = append(out, POp{K: "W", P: p, N: n + 4}, POp{K: "repl", P: p, Mode: "nil-channel"}, POp{K: "D"}, POp{K: "R", Mode: "all"}, POp{K: "D"})
					return
				}
				if rng.IntN(3) == 0 {
					// replace a channel that was closed and has been seen drained
					out = append(out, POp{K: "C", P: p}, POp{K: "D"}, POp{K: "R", Mode: "all"}, POp{K: "D"})
				}
				out = append(out, POp{K: "repl", P: p, Cap: capOf(n)}, POp{K: "W", P: p, N: n})
			case 2: // remove
				var ps []uint
				for p, ok := range present {
					if ok {
						ps = append(ps, p)
					}
				}
				if len(ps) == 0 || (len(ps) == 1 && rng.IntN(3) != 0) {
					return // the last registered input is removed too, now and then: nothing is left to serve
				}
				sort.Slice(ps, func(i, j int) bool { return ps[i] < ps[j] })
				p := ps[rng.IntN(len(ps))]
				if rng.IntN(3) == 0 {
					// remove an input that was closed and has been seen drained
					out = append(out, POp{K: "C", P: p}, POp{K: "D"}, POp{K: "R", Mode: "all"}, POp{K: "D"})
				}
				out = append(out, POp{K: "rm", P: p})
				present[p] = false
				removed = append(removed, p)
			case 3: // remove a priority that is not registered: must change nothing
				var absent []uint
				for _, p := range extra {
					if !present[p] {
						absent = append(absent, p)
					}
				}
				for _, p := range prios {
					if !present[p] {
						absent = append(absent, p)
					}
				}
				absent = append(absent, uint(1+rng.IntN(90)))
				p := absent[rng.IntN(len(absent))]
				if !present[p] {
					out = append(out, POp{K: "rm", P: p})
				}
			default: // re-add a removed priority with a fresh channel
				if len(removed) == 0 {
					return
				}
				p := removed[rng.IntN(len(removed))]
				if present[p] {
					return
				}
				n := 1 + rng.IntN(H+2)
				kind := "add"
				if rng.IntN(3) == 0 {
					kind = "addold" // with the channel object that was registered before the removal, if it is still open
				}
				out = append(out, POp{K: kind, P: p, Cap: capOf(n)}, POp{K: "W", P: p, N: n})
				present[p] = true
			}
			if rng.IntN(2) == 0 {
				out = append(out, POp{K: "D"})
			}
		}
		for i, op := range sc.Script {
			if at[i] {
				emit()
			}
			if (op.K == "W" || op.K == "C" || op.K == "A") && !present[op.P] {
				continue
			}
			out = append(out, op)
		}
		if at[len(sc.Script)] {
			emit()
		}
		if nilUsed && present[nilPrio] {
			out = append(out, POp{K: "rm", P: nilPrio}, POp{K: "D"})
			present[nilPrio] = false
		}
		if rng.IntN(6) == 0 {
			// end game: everything registered is closed and drained; a further (open, empty) input
			// is added and GracefulStop() is called the instant AddInput() has returned - with a
			// divider that takes its time, so that both land in one pass of the scheduler. The
			// discipline must wait for the new input.
			var free []uint
			for _, p := range extra {
				if !present[p] {
					free = append(free, p)
				}
			}
			if len(free) >= 1 {
				var ps []uint
				for p, ok := range present {
					if ok {
						ps = append(ps, p)
					}
				}
				sort.Slice(ps, func(i, j int) bool { return ps[i] < ps[j] })
				for _, p := range ps {
					out = append(out, POp{K: "C", P: p})
				}
				out = append(out, POp{K: "D"}, POp{K: "R", Mode: "all"}, POp{K: "D"}, POp{K: "R", Mode: "all"}, POp{K: "D"},
					POp{K: "add", P: free[0], Cap: 1 + rng.IntN(3), Mode: "then-graceful"},
					POp{K: "H", D: int64(500 + rng.IntN(3000))})
				present[free[0]] = true
				sc.DividerDelayNs = []int{0, 5, 40}[rng.IntN(3)]
				sc.Script = out
				return sc
			}
		}
		if rng.IntN(5) == 0 {
			// end game: GracefulStop() is requested while an input is still open (so the
			// discipline cannot end yet), and only then that input is taken out with
			// RemoveInput - optionally after one more AddInput whose channel is served and closed
			var free []uint
			for _, p := range extra {
				if !present[p] {
					free = append(free, p)
				}
			}
			if len(free) >= 1 {
				keep := free[0]
				out = append(out, POp{K: "add", P: keep, Cap: 1 + rng.IntN(3)}, POp{K: "D"}, POp{K: "graceful"}, POp{K: "D"})
				present[keep] = true
				if len(free) >= 2 && rng.IntN(2) == 0 {
					n := 1 + rng.IntN(H+2)
					out = append(out, POp{K: "add", P: free[1], Cap: capOf(n)}, POp{K: "W", P: free[1], N: n}, POp{K: "C", P: free[1]}, POp{K: "D"}, POp{K: "R", Mode: "all"}, POp{K: "D"})
					present[free[1]] = true
				}
				out = append(out, POp{K: "rm", P: keep}, POp{K: "D"})
				present[keep] = false
				sc.Script = out
				return sc
			}
		}
		if rng.IntN(3) == 0 {
			// end game: everything closed and drained, graceful stop pending, only the items of
			// removed / replaced channels are still withheld - the discipline has to keep waiting
			var ps []uint
			for p, ok := range present {
				if ok {
					ps = append(ps, p)
				}
			}
			sort.Slice(ps, func(i, j int) bool { return ps[i] < ps[j] })
			for _, p := range ps {
				out = append(out, POp{K: "C", P: p})
			}
			out = append(out, POp{K: "graceful"}, POp{K: "D"}, POp{K: "R", Mode: "keep-removed"}, POp{K: "D"}, POp{K: "R", Mode: "keep-removed"}, POp{K: "D"},
				POp{K: "H", D: int64(200 + rng.IntN(3000))})
		}
		sc.Script = out
	}
	return sc
}

func (sc PrioScenario) class() string {
	unb := 0
	for _, in := range sc.Inputs {
		if in.Cap == 0 {
			unb++
		}
	}
	mix := "buffered"
	if unb == len(sc.Inputs) {
		mix = "unbuffered"
	} else if unb > 0 {
		mix = "mixed"
	}
	return sc.Ver + "/" + sc.Divider + "/" + mix
}
