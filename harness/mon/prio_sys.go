package mon

// Adapters that give the four priority disciplines (v2, v1, v2 simple, v1 Simple) one
// boundary-level interface for the monitors, the input writers, and the dividers used by the
// scenarios (real Fair / Rate, custom sum-preserving ones, fault-injecting wrappers).

import (
	"context"
	"fmt"
	"hash/fnv"
	"math/rand/v2"
	"sort"
	"sync"
	"sync/atomic"
	"time"

	v1prio "github.com/akramarenkov/cqos/priority"
	v2prio "github.com/akramarenkov/cqos/v2/priority"
	"github.com/akramarenkov/cqos/v2/priority/divider"
	"github.com/akramarenkov/cqos/v2/priority/simple"
)

// PItem is the unique identity carried by every element written to an input.
type PItem struct {
	P   uint `json:"p"`  // priority under which the channel is registered
	Ch  int  `json:"ch"` // channel object id (v1: inputs can be replaced)
	Seq int  `json:"seq"`
}

type hcall struct {
	it   PItem
	gate chan struct{}
}

// Dlv is one delivery observed at the boundary.
type Dlv struct {
	Tag  uint
	It   PItem
	call *hcall // simple disciplines: the Handle call to let return
}

type recvStatus int

const (
	recvGot recvStatus = iota
	recvEmpty
	recvClosed
	recvTimeout
)

// ---------------------------------------------------------------------------------------
// dividers

type divFn func(priorities []uint, dividend uint, distribution map[uint]uint)

func customDivider(kind string, seed uint64) divFn {
	switch kind {
	case "fair":
		return divider.Fair
	case "rate":
		return divider.Rate
	case "revfair": // even split, extra units to the lowest priorities
		return func(p []uint, q uint, d map[uint]uint) {
			if len(p) == 0 || d == nil {
				return
			}
			n := uint(len(p))
			base, rem := q/n, q%n
			for i := len(p) - 1; i >= 0; i-- {
				d[p[i]] += base
				if rem > 0 {
					d[p[i]]++
					rem--
				}
			}
		}
	case "toprem": // everybody gets floor(q/(n+1)), the highest priority takes the remainder
		return func(p []uint, q uint, d map[uint]uint) {
			if len(p) == 0 || d == nil {
				return
			}
			n := uint(len(p))
			base := q / (n + 1)
			for _, x := range p {
				d[x] += base
			}
			d[p[0]] += q - base*n
		}
	case "hashw": // deterministic pseudo-random weights, largest-remainder apportionment
		return func(p []uint, q uint, d map[uint]uint) {
			if len(p) == 0 || d == nil {
				return
			}
			w := make([]uint, len(p))
			var sum uint
			for i, x := range p {
				h := fnv.New64a()
				fmt.Fprintf(h, "%d/%d", seed, x)
				w[i] = uint(h.Sum64()%5) + 1
				sum += w[i]
			}
			given := uint(0)
			type fr struct {
				i   int
				rem uint
			}
			frs := make([]fr, len(p))
			parts := make([]uint, len(p))
			for i := range p {
				parts[i] = q * w[i] / sum
				frs[i] = fr{i, q * w[i] % sum}
				given += parts[i]
			}
			sort.SliceStable(frs, func(a, b int) bool { return frs[a].rem > frs[b].rem })
			for k := 0; given < q; k++ {
				parts[frs[k%len(frs)].i]++
				given++
			}
			for i, x := range p {
				d[x] += parts[i]
			}
		}
	}
	panic("unknown divider " + kind)
}

// sharesOf asks the divider itself for the target share of every priority (rule 8).
func sharesOf(div divFn, prios []uint, h uint) map[uint]uint {
	sorted := append([]uint(nil), prios...)
	sort.Slice(sorted, func(i, j int) bool { return sorted[i] > sorted[j] })
	d := map[uint]uint{}
	div(sorted, h, d)
	return d
}

func asV1(div divFn) v1prio.Divider {
	return func(p []uint, q uint, d map[uint]uint) map[uint]uint {
		if len(p) == 0 {
			return nil // what the v1 dividers do for an empty list
		}
		if d == nil {
			d = make(map[uint]uint, len(p))
		}
		div(p, q, d)
		return d
	}
}

// ---------------------------------------------------------------------------------------
// inputs

type wcmd struct {
	it    PItem
	close bool
}

// pInput is one input channel object with its writer goroutine.
type pInput struct {
	P    uint
	ID   int
	Cap  int
	ch   chan PItem
	q    chan wcmd
	next int // next sequence number to enqueue (owned by the stepper)

	enq         int          // items enqueued (stepper)
	wsCount     atomic.Int64 // writes started
	wcCount     atomic.Int64 // writes completed
	closedAt    atomic.Int64 // 1 once the channel was closed by the writer
	closeEnq    bool
	recv        int          // items of this channel received (stepper)
	seen        map[int]bool // simple disciplines: sequence numbers seen
	removed     bool
	removedByRm bool  // removed by RemoveInput (as opposed to replaced by AddInput)
	takenAt     int64 // items taken out by the discipline when the removal returned (-1: not removed)
	stampsMu    sync.Mutex
	ws, wc      []int64 // per item stamps (ns since scenario start), used by the real-time runs

	// parked writers (saturation of inputs with a small buffer): `multi` goroutines each keep
	// sending; whenever the bubble is quiescent all of them are parked in a send, so the next
	// `multi` receives from the channel cannot find it empty
	isNil   bool // the input is a nil channel
	thief   bool // a second consumer (of the harness) also receives from this channel: channels may have several readers
	stolen  chan PItem
	multi   int
	mwNext  atomic.Int64
	mwQuit  chan struct{}
	mwWG    sync.WaitGroup
	mwEnded bool
}

func newPInput(p uint, id, capacity, queue int) *pInput {
	return &pInput{P: p, ID: id, Cap: capacity, ch: make(chan PItem, capacity), q: make(chan wcmd, queue), takenAt: -1}
}

// prefill writes n items directly (the channel must have room; used before New).
func (in *pInput) prefill(n int) {
	for i := 0; i < n; i++ {
		in.ch <- PItem{P: in.P, Ch: in.ID, Seq: in.next}
		in.next++
		in.enq++
		in.wsCount.Add(1)
		in.wcCount.Add(1)
	}
}

func (in *pInput) startWriter(abort <-chan struct{}, wg *sync.WaitGroup) {
	wg.Add(1)
	go func() {
		defer wg.Done()
		for {
			var c wcmd
			select {
			case c = <-in.q:
			case <-abort:
				return
			}
			if c.close {
				close(in.ch)
				in.closedAt.Store(1)
				return
			}
			in.wsCount.Add(1)
			select {
			case in.ch <- c.it:
				in.wcCount.Add(1)
			case <-abort:
				return
			}
		}
	}()
}

// startParked starts the parked writers (before the discipline is created).
func (in *pInput) startParked(abort <-chan struct{}) {
	in.mwQuit = make(chan struct{})
	in.mwNext.Store(int64(in.next))
	for i := 0; i < in.multi; i++ {
		in.mwWG.Add(1)
		go func() {
			defer in.mwWG.Done()
			for {
				seq := int(in.mwNext.Add(1) - 1)
				in.wsCount.Add(1)
				select {
				case in.ch <- PItem{P: in.P, Ch: in.ID, Seq: seq}:
					in.wcCount.Add(1)
				case <-in.mwQuit:
					in.wsCount.Add(-1)
					return
				case <-abort:
					in.wsCount.Add(-1)
					return
				}
			}
		}()
	}
}

// endParked stops the parked writers and closes the channel (called by the stepper).
func (in *pInput) endParked() {
	if in.mwEnded {
		return
	}
	in.mwEnded = true
	close(in.mwQuit)
	in.mwWG.Wait()
	in.enq = int(in.wcCount.Load())
	close(in.ch)
	in.closedAt.Store(1)
	in.closeEnq = true
}

// startThief starts the second consumer: now and then it takes an item out of the channel
// itself and hands it to the stepper, which books it as delivered elsewhere.
func (in *pInput) startThief(abort <-chan struct{}, wg *sync.WaitGroup, seed uint64) {
	in.stolen = make(chan PItem, 8192)
	wg.Add(1)
	go func() {
		defer wg.Done()
		r := rand.New(rand.NewPCG(seed, 4))
		for {
			select {
			case <-time.After(time.Duration(1+r.IntN(40)) * time.Nanosecond):
			case <-abort:
				return
			}
			for k := r.IntN(3); k >= 0; k-- {
				select {
				case it, ok := <-in.ch:
					if !ok {
						return
					}
					in.stolen <- it
				default:
				}
			}
		}
	}()
}

func (in *pInput) write(n int) {
	for i := 0; i < n; i++ {
		in.q <- wcmd{it: PItem{P: in.P, Ch: in.ID, Seq: in.next}}
		in.next++
		in.enq++
	}
}

func (in *pInput) closeLater() {
	if in.multi > 0 {
		in.endParked()
		return
	}
	if !in.closeEnq {
		in.closeEnq = true
		in.q <- wcmd{close: true}
	}
}

// undelivered reports whether the input is known to hold an item the discipline has not
// taken yet: a completed write not yet received (buffered) or a writer parked in a send.
func (in *pInput) undelivered() bool {
	if in.removed {
		return false
	}
	return in.wsCount.Load() > int64(in.recv)
}

// taken = number of items the discipline has taken out of the channel so far.
func (in *pInput) taken() int64 {
	return in.wcCount.Load() - int64(len(in.ch))
}

// ---------------------------------------------------------------------------------------
// the boundary interface

type prioSys struct {
	ver string
	H   uint

	recvWait func(d time.Duration) (Dlv, recvStatus)
	tryRecv  func() (Dlv, recvStatus)
	outLen   func() int
	outCap   int
	fbLen    func() int                         // v1: feedback writes the discipline has not consumed yet (harness-owned channel); nil otherwise
	release  func(d Dlv, abort <-chan struct{}) // may block; called from its own goroutine
	errCh    <-chan error

	// v1 only
	stop, graceful, cancel func()
	addInput               func(in *pInput)
	removeInput            func(p uint)

	// simple only
	entered, returned *atomic.Int64
}

type prioBuild struct {
	Ver             string
	Div             divFn
	DivV1           v1prio.Divider // v1 variants: used instead of Div when set
	H               uint
	Inputs          []*pInput
	OutCap          int // v1
	FbCap           int // v1
	Abort           <-chan struct{}
	Entered         int           // simple: capacity of the entered channel
	HandleExitDelay time.Duration // v1 Simple: time Handle needs to return once its context is cancelled
	NilCtx          bool          // v1 variants: leave Opts.Ctx nil (the library must fall back to a background context)
	ReuseInputsMap  int           // > 0: the caller reuses its Inputs map after New (1 decoy channels under the same keys, 2 emptied, 3 decoys and further keys)
}

// reuseInputsMap does what a caller may do with ITS map once New has returned: it puts other
// channels (holding items that must never come out of this discipline) under the same keys,
// empties the map, or adds entries for other priorities.
func reuseInputsMap(inputs map[uint]<-chan PItem, how int) {
	decoy := func(p uint) <-chan PItem {
		c := make(chan PItem, 2)
		c <- PItem{P: p, Ch: -1, Seq: 0}
		c <- PItem{P: p, Ch: -1, Seq: 1}
		return c
	}
	switch how {
	case 1:
		clear(inputs)
	case 2:
		for p := range inputs {
			inputs[p] = decoy(p)
		}
		for k := uint(0); k < 3; k++ {
			p := uint(1)<<40 + k
			inputs[p] = decoy(p)
		}
	default:
		for p := range inputs {
			inputs[p] = decoy(p)
		}
	}
}

func buildPrio(b prioBuild) (*prioSys, error) {
	s := &prioSys{ver: b.Ver, H: b.H}
	divV1 := b.DivV1
	if divV1 == nil && b.Div != nil {
		divV1 = asV1(b.Div)
	}
	switch b.Ver {
	case "v2":
		inputs := map[uint]<-chan PItem{}
		for _, in := range b.Inputs {
			inputs[in.P] = in.ch
		}
		d, err := v2prio.New(v2prio.Opts[PItem]{Divider: divider.Divider(b.Div), HandlersQuantity: b.H, Inputs: inputs})
		if err != nil {
			return nil, err
		}
		if b.ReuseInputsMap > 0 {
			reuseInputsMap(inputs, b.ReuseInputsMap-1)
		}
		out := d.Output()
		s.outCap = cap(out)
		s.errCh = d.Err()
		s.outLen = func() int { return len(out) }
		s.tryRecv = func() (Dlv, recvStatus) {
			select {
			case x, ok := <-out:
				if !ok {
					return Dlv{}, recvClosed
				}
				return Dlv{Tag: x.Priority, It: x.Item}, recvGot
			default:
				return Dlv{}, recvEmpty
			}
		}
		s.recvWait = func(w time.Duration) (Dlv, recvStatus) {
			t := time.NewTimer(w)
			defer t.Stop()
			select {
			case x, ok := <-out:
				if !ok {
					return Dlv{}, recvClosed
				}
				return Dlv{Tag: x.Priority, It: x.Item}, recvGot
			case <-t.C:
				return Dlv{}, recvTimeout
			}
		}
		s.release = func(dl Dlv, _ <-chan struct{}) { d.Release(dl.Tag) }
		return s, nil
	case "v1":
		inputs := map[uint]<-chan PItem{}
		for _, in := range b.Inputs {
			inputs[in.P] = in.ch
		}
		out := make(chan v1prio.Prioritized[PItem], b.OutCap)
		fb := make(chan uint, b.FbCap)
		ctx, cancel := context.WithCancel(context.Background())
		var optCtx context.Context = ctx
		if b.NilCtx {
			optCtx = nil
		}
		d, err := v1prio.New(v1prio.Opts[PItem]{Ctx: optCtx, Divider: divV1, Feedback: fb, HandlersQuantity: b.H, Inputs: inputs, Output: out})
		if err != nil {
			cancel()
			return nil, err
		}
		if b.ReuseInputsMap > 0 {
			reuseInputsMap(inputs, b.ReuseInputsMap-1)
		}
		s.outCap = b.OutCap
		s.errCh = d.Err()
		s.outLen = func() int { return len(out) }
		s.tryRecv = func() (Dlv, recvStatus) {
			select {
			case x := <-out:
				return Dlv{Tag: x.Priority, It: x.Item}, recvGot
			default:
				return Dlv{}, recvEmpty
			}
		}
		s.recvWait = func(w time.Duration) (Dlv, recvStatus) {
			t := time.NewTimer(w)
			defer t.Stop()
			select {
			case x := <-out:
				return Dlv{Tag: x.Priority, It: x.Item}, recvGot
			case <-t.C:
				return Dlv{}, recvTimeout
			}
		}
		s.release = func(dl Dlv, abort <-chan struct{}) {
			select {
			case fb <- dl.Tag:
			case <-abort:
			}
		}
		s.fbLen = func() int { return len(fb) }
		s.stop, s.graceful, s.cancel = d.Stop, d.GracefulStop, cancel
		s.addInput = func(in *pInput) { d.AddInput(in.ch, in.P) }
		s.removeInput = d.RemoveInput
		return s, nil
	case "v2s", "v1s":
		inputs := map[uint]<-chan PItem{}
		for _, in := range b.Inputs {
			inputs[in.P] = in.ch
		}
		enteredCh := make(chan *hcall, b.Entered)
		s.entered, s.returned = &atomic.Int64{}, &atomic.Int64{}
		// the internal output buffer of the wrapped discipline (same formula as the library's)
		s.outCap = max(int(b.H)/10, len(b.Inputs))
		s.outLen = func() int { return len(enteredCh) }
		toDlv := func(c *hcall) Dlv { return Dlv{Tag: c.it.P, It: c.it, call: c} }
		s.tryRecv = func() (Dlv, recvStatus) {
			select {
			case c := <-enteredCh:
				return toDlv(c), recvGot
			default:
				return Dlv{}, recvEmpty
			}
		}
		s.recvWait = func(w time.Duration) (Dlv, recvStatus) {
			t := time.NewTimer(w)
			defer t.Stop()
			select {
			case c := <-enteredCh:
				return toDlv(c), recvGot
			case <-t.C:
				return Dlv{}, recvTimeout
			}
		}
		s.release = func(dl Dlv, _ <-chan struct{}) { close(dl.call.gate) }
		if b.Ver == "v2s" {
			handle := func(it PItem) {
				c := &hcall{it: it, gate: make(chan struct{})}
				s.entered.Add(1)
				enteredCh <- c
				select {
				case <-c.gate:
				case <-b.Abort:
				}
				s.returned.Add(1)
			}
			d, err := simple.New(simple.Opts[PItem]{Divider: divider.Divider(b.Div), Handle: handle, HandlersQuantity: b.H, Inputs: inputs})
			if err != nil {
				return nil, err
			}
			if b.ReuseInputsMap > 0 {
				reuseInputsMap(inputs, b.ReuseInputsMap-1)
			}
			s.errCh = d.Err()
			return s, nil
		}
		ctx, cancel := context.WithCancel(context.Background())
		handle := func(hctx context.Context, it PItem) {
			c := &hcall{it: it, gate: make(chan struct{})}
			s.entered.Add(1)
			enteredCh <- c
			select {
			case <-c.gate:
			case <-hctx.Done(): // Handle honours its context: it returns, after a bounded clean-up time
				if b.HandleExitDelay > 0 {
					time.Sleep(b.HandleExitDelay)
				}
			case <-b.Abort:
			}
			s.returned.Add(1)
		}
		var optCtx context.Context = ctx
		if b.NilCtx {
			optCtx = nil
		}
		d, err := v1prio.NewSimple(v1prio.SimpleOpts[PItem]{Ctx: optCtx, Divider: divV1, Handle: handle, HandlersQuantity: b.H, Inputs: inputs})
		if err != nil {
			cancel()
			return nil, err
		}
		if b.ReuseInputsMap > 0 {
			reuseInputsMap(inputs, b.ReuseInputsMap-1)
		}
		s.errCh = d.Err()
		s.stop, s.graceful, s.cancel = d.Stop, d.GracefulStop, cancel
		return s, nil
	}
	return nil, fmt.Errorf("unknown version %q", b.Ver)
}
