package mon

// C04 and C12 — limit discipline monitors.

import (
	"math/rand/v2"
	"testing"
	"time"
)

type limitCaseResult struct {
	leaked   string
	censused bool
	sc       LimitScenario
	tr       *LimitTrace
	fs       []limitFinding
	st       limitStats
}

func (r *Run) limitCase(t *testing.T, sc LimitScenario) limitCaseResult {
	res := limitCaseResult{sc: sc}
	inBubble := !sc.Real
	if inBubble {
		out := r.runBubble(t, 60*time.Second, jsonString(sc), func(ctl *bubbleCtl) {
			ctl.SetPhase("limit-scenario", "")
			res.tr = runLimit(sc)
			if r.wantCensus() && res.tr != nil && res.tr.Rejected == "" && res.tr.Closed {
				res.leaked = bubbleCensus(ctl)
				res.censused = true
			}
		})
		if res.censused {
			r.Count("goroutine_censuses", 1)
			r.Count("census.limit.input-closed", 1)
			if res.leaked != "" {
				r.Violation("C19", "leak:limit", "goroutine(s) started by the limit discipline remain after its output closed: "+firstLines(res.leaked, 12),
					map[string]any{"scenario": sc, "stacks": res.leaked})
			}
		}
		if out.Deadlock != "" && res.tr != nil && res.tr.StuckMsg == "" {
			r.Violation("C19", "leak:limit", "goroutines remained blocked after the limit scenario ended: "+out.Deadlock,
				map[string]any{"scenario": sc, "stacks": out.Stacks})
		}
	} else {
		res.tr = runLimit(sc)
		if res.tr != nil && res.tr.StuckMsg != "" {
			// real clock: only a stall that repeats is judged (see joinCase)
			r.Count("real.stalls_seen_once_and_replayed", 1)
			res.tr = runLimit(sc)
		}
	}
	if res.tr == nil {
		r.Inconclusive("limit scenario produced no trace: " + jsonString(sc))
		return res
	}
	r.Eval(1)
	if res.tr.Rejected != "" {
		r.Count("rejected_by_constructor", 1)
		return res
	}
	res.fs, res.st = judgeLimit(sc, res.tr, inBubble)
	for _, f := range res.fs {
		recv := res.tr.Recv
		if len(recv) > 60 {
			recv = recv[:60]
		}
		r.Violation(f.Prop, f.Key, f.Msg, map[string]any{"scenario": sc, "receive_ns": recv, "closed_at_ns": res.tr.ClosedAt})
	}
	r.Count("elements_received", int64(len(res.tr.Recv)))
	r.Count("batches", int64(res.st.Batches))
	r.Count("producer_stalls_longer_than_interval", int64(res.st.Stalls))
	return res
}

func limitSample(res limitCaseResult) map[string]any {
	recv := res.tr.Recv
	if len(recv) > 40 {
		recv = recv[:40]
	}
	return map[string]any{"scenario": res.sc, "receive_ns": recv, "closed_at_ns": res.tr.ClosedAt}
}

func replayLimit(t *testing.T, r *Run) bool {
	if r.Cfg.Replay == "" {
		return false
	}
	var doc struct {
		Witness struct{ Scenario LimitScenario }
	}
	if err := readJSON(r.Cfg.Replay, &doc); err != nil {
		t.Fatal(err)
	}
	fired := 0
	for i := 0; i < 50; i++ {
		before := r.ViolationCount()
		r.limitCase(t, doc.Witness.Scenario)
		if r.ViolationCount() > before {
			fired++
		}
	}
	r.Extra["replay_runs"] = 50
	r.Extra["replay_runs_violating"] = fired
	t.Logf("replay: %d of 50 runs violated", fired)
	return true
}

func TestC04(t *testing.T) {
	r := newRun(t, "C04", "exploration")
	defer r.Finish(t)
	r.Rule = "cases = generated limit scenarios: Quantity 1..1000, Interval 1us..10s (fake clock) / 2..30ms (real clock), input capacity 0..n, arrivals prefilled / trickle / stall-then-burst (stalls 0.5..5.5 Interval) / bursts of k*Quantity+-1, consumer ready or slow; oracle offline: cumulative bound n <= Quantity*(floor((t_n-T0)/Interval)+1) on every run (both clocks, any consumer; T0 stamped before New, receive stamps after the receive), window bound j-i+1 <= Quantity*(floor((t_j-t_i)/Interval)+2) for all i<j on the fake clock with a ready consumer (there receive instant = send instant). non-trivial = >= 3 batches and at least one producer stall longer than Interval; distinct by scenario fingerprint"
	r.Assumptions = []string{"testing/synctest fake clock of go1.26.8", "with a slow consumer only the cumulative bound is asserted: the output buffer (1+cap(input)) legitimately hands a burst to a late consumer"}
	r.Floor = 20
	if replayLimit(t, r) {
		return
	}
	var minSlack int64 = 1 << 62
	var maxWin int64
	ch := make(chan [2]int64, 1024)
	done := make(chan struct{})
	go func() {
		for v := range ch {
			if v[0] < minSlack {
				minSlack = v[0]
			}
			if v[1] > maxWin {
				maxWin = v[1]
			}
		}
		close(done)
	}()
	body := func(g limitGen) func(t *testing.T, idx int, rng *rand.Rand) {
		return func(t *testing.T, idx int, rng *rand.Rand) {
			res := r.limitCase(t, genLimitScenario(rng, g))
			if res.tr == nil || res.tr.Rejected != "" || !res.tr.Closed {
				return
			}
			if len(res.tr.Recv) > 0 {
				if res.sc.Q < 1<<40 {
					ch <- [2]int64{res.st.MinSlack, res.st.MaxInWindow * 1000 / int64(res.sc.Q)}
				}
			}
			if res.st.Batches >= 3 && res.st.Stalls >= 1 {
				r.NonTrivial(jsonString(res.sc))
				if r.WantSample() {
					r.Sample(limitSample(res))
				}
			}
		}
	}
	r.Parallel(t, "virtual", r.Cfg.pick(8000, 300000), body(limitGen{}))
	r.Parallel(t, "real", r.Cfg.pick(200, 3000), body(limitGen{Real: true}))
	close(ch)
	<-done
	r.Extra["min_slack_to_cumulative_bound_elements"] = minSlack
	r.Extra["max_elements_in_a_window_shorter_than_interval_permil_of_quantity"] = maxWin
}

func TestC12(t *testing.T) {
	r := newRun(t, "C12", "exploration")
	defer r.Finish(t)
	r.Rule = "cases = generated limit scenarios with element counts in {0,1,Q-1,Q,Q+1,kQ,kQ+-1,random}, Quantity 1..1000 incl. 1, input capacity 0..n; oracle offline: output sequence = input sequence, output closes, closure not before the input was closed (both clocks); on the fake clock with a ready consumer: (1) total count < Quantity, any arrival pattern: every element is received at the very instant its write started; (2) all N elements up-front: element i received by floor(i/Q)*Interval + Interval/100, and with the input closed before creation the output closes by ceil(N/Q)*Interval + Interval/100; (3) any arrival pattern: element j leaves no later than max(its write start, departure of j-1, departure of j-Quantity + Interval) + Interval/100 - later means an available element was held although fewer than Quantity had passed in the last Interval. (4) the output closes no later than max(last departure, input close) + Interval/100, plus one Interval only when the element count is a multiple of Quantity (the documented final delay). Quantity also takes 'unlimited' values around 2^63 and 2^64-1. non-trivial = scenario in which form (1) or (2) applied, or >= 2 batches were passed through; distinct by scenario fingerprint"
	r.Rule += " | also oracle (5): a reference model of the portion pacing (arrival, predecessor, portion start, room in the output, the consumer's own call) bounds every receive for ANY consumer on the fake clock"
	r.Assumptions = []string{"testing/synctest fake clock of go1.26.8", "only the two timing forms the property states are asserted, not a timed model of the current loop"}
	r.Floor = 20
	if replayLimit(t, r) {
		return
	}
	body := func(g limitGen) func(t *testing.T, idx int, rng *rand.Rand) {
		return func(t *testing.T, idx int, rng *rand.Rand) {
			res := r.limitCase(t, genLimitScenario(rng, g))
			if res.tr == nil || res.tr.Rejected != "" || !res.tr.Closed {
				return
			}
			sc := res.sc
			total := sc.total()
			form := ""
			if !sc.Real && sc.Consumer == "eager" {
				if uint64(total) < sc.Q && total > 0 && !sc.PrefillClosed {
					form = "below-quantity"
				} else if sc.Prefill == total && total > 0 {
					form = "upfront"
					if sc.PrefillClosed {
						form = "upfront-closed"
					}
				}
			}
			if form != "" {
				r.Count("timing_form."+form, 1)
			}
			if form != "" || res.st.Batches >= 2 {
				r.NonTrivial(jsonString(sc))
				if r.WantSample() && form != "" {
					s := limitSample(res)
					s["timing_form"] = form
					r.Sample(s)
				}
			}
			switch {
			case total == 0:
				r.Distinct("count_class", "0")
			case uint64(total) < sc.Q:
				r.Distinct("count_class", "<Q")
			case uint64(total)%sc.Q == 0:
				r.Distinct("count_class", "kQ")
			default:
				r.Distinct("count_class", "kQ+r")
			}
		}
	}
	r.Parallel(t, "virtual-upfront", r.Cfg.pick(6000, 200000), body(limitGen{Upfront: true}))
	r.Parallel(t, "virtual-mixed", r.Cfg.pick(6000, 200000), body(limitGen{}))
	r.Parallel(t, "real", r.Cfg.pick(200, 3000), body(limitGen{Real: true}))
}
