package mon

// Divider contract monitor and fault injection (C15), stop / cancel injection (C16).

import (
	"fmt"
	"sort"
	"strings"
	"sync"
	"sync/atomic"
	"testing/synctest"
	"time"
)

type divMonitor struct {
	x     *prioExec
	inner divFn

	calls   atomic.Int64
	created atomic.Bool
	faulted atomic.Bool
	applied atomic.Bool // a result was corrupted, whether or not it counts as a fault by the property's condition

	mu                sync.Mutex
	allowed           map[uint]bool
	gracefulRequested atomic.Bool // v1: GracefulStop() has been called by the harness
	contract          []string
	listLens          map[int]int
	maxDiv            uint
	prevDiv           uint
	faultCall         int64
	faultR1           int64
	faultL            int
	faultR2           int64
	faultIn           bool
	faultLUnknown     bool
	faultDesc         string
	roundDivs         int64

	afterFault atomic.Int64
}

func newDivMonitor(x *prioExec, inner divFn) *divMonitor {
	m := &divMonitor{x: x, inner: inner, allowed: map[uint]bool{}, listLens: map[int]int{}}
	for _, in := range x.sc.Inputs {
		m.allowed[in.P] = true
	}
	return m
}

func (m *divMonitor) allow(p uint, ok bool) {
	m.mu.Lock()
	m.allowed[p] = ok
	m.mu.Unlock()
}

// divide is the divider handed to the discipline: it checks the calling contract, delegates
// to the configured divider and, if the scenario says so, corrupts one result.
func (m *divMonitor) divide(p []uint, q uint, d map[uint]uint) { m.divideFull(p, q, d, false) }

// divideV1 has the v1 signature: a nil distribution (a share computation, not a round
// division) is created here, and an empty list yields nil like the v1 dividers do.
func (m *divMonitor) divideV1(p []uint, q uint, d map[uint]uint) map[uint]uint {
	wasNil := d == nil
	if wasNil {
		d = make(map[uint]uint, len(p))
	}
	var before uint
	for _, v := range d {
		before += v
	}
	m.divideFull(p, q, d, wasNil)
	if len(p) == 0 {
		// the v1 dividers return nil for an empty list and touch nothing; a faulty one that did
		// add something returns the map it added to (the discipline judges what is returned)
		var after uint
		for _, v := range d {
			after += v
		}
		if after == before {
			return nil
		}
	}
	return d
}

func (m *divMonitor) divideFull(p []uint, q uint, d map[uint]uint, v1NilDist bool) {
	k := m.calls.Add(1) - 1
	sc := m.x.sc
	m.mu.Lock()
	bad := func(format string, a ...any) {
		if len(m.contract) < 5 {
			m.contract = append(m.contract, fmt.Sprintf("divider call #%d (list %v, dividend %d): ", k, p, q)+fmt.Sprintf(format, a...))
		}
	}
	for i, v := range p {
		if i > 0 && p[i-1] <= v {
			bad("list is not strictly descending (distinct, sorted high to low)")
			break
		}
		if !m.allowed[v] {
			bad("priority %d is not configured", v)
			break
		}
	}
	if q > sc.H {
		bad("dividend exceeds HandlersQuantity %d", sc.H)
	}
	if !sc.isV1() && d == nil {
		bad("nil distribution passed by the v2 discipline")
	}
	m.listLens[len(p)]++
	if q > m.maxDiv {
		m.maxDiv = q
	}
	prev := m.prevDiv
	m.prevDiv = q
	m.mu.Unlock()

	roundDivision := d != nil && !v1NilDist && (sc.isV1() || m.created.Load())
	if roundDivision {
		m.roundDivs++
	}
	f := sc.Fault
	inject := false
	if f != nil && !m.faulted.Load() {
		switch {
		case f.Trigger == "" && int64(f.At) == k:
			inject = true
		case f.Trigger == "after-graceful":
			inject = roundDivision && m.gracefulRequested.Load()
		case f.Trigger == "after-H":
			inject = roundDivision && prev == sc.H && k > 1
		case len(f.Trigger) > 9 && f.Trigger[:9] == "inflight=":
			var j int64
			fmt.Sscanf(f.Trigger[9:], "%d", &j)
			inject = roundDivision && m.x.heldN.Load() == j
		case len(f.Trigger) > 8 && f.Trigger[:8] == "listlen=":
			var j int
			fmt.Sscanf(f.Trigger[8:], "%d", &j)
			inject = roundDivision && len(p) == j
		}
		if v1NilDist {
			inject = false // v1 share computations (nil distribution) are not round divisions
		}
	}
	if sc.DividerDelayNs > 0 {
		time.Sleep(time.Duration(sc.DividerDelayNs)) // a divider is user code: it may take its time
	}
	if !inject {
		m.inner(p, q, d)
		return
	}
	m.applied.Store(true)
	before := map[uint]uint{}
	var totalBefore uint
	for _, v := range d {
		totalBefore += v
	}
	for _, key := range p {
		before[key] = d[key]
	}
	m.inner(p, q, d)
	switch f.Kind {
	case "plus1":
		if len(p) > 0 {
			d[p[0]]++
		}
	case "double":
		for _, key := range p {
			d[key] += d[key] - before[key]
		}
	case "minus1":
		for _, key := range p {
			if d[key] > before[key] {
				d[key]--
				break
			}
		}
	case "outside":
		// the list itself is divided correctly, but a configured priority that is NOT in the
		// list gets a handler as well (possible only when the list is a strict subset)
		in := map[uint]bool{}
		for _, key := range p {
			in[key] = true
		}
		m.mu.Lock()
		var out []uint
		for key, ok := range m.allowed {
			if ok && !in[key] {
				out = append(out, key)
			}
		}
		m.mu.Unlock()
		if len(out) > 0 {
			sort.Slice(out, func(i, j int) bool { return out[i] > out[j] })
			d[out[int(k)%len(out)]]++
		}
	}
	var totalAfter uint
	for _, v := range d {
		totalAfter += v
	}
	// the statement's condition: a non-zero total whose added part differs from the dividend
	if totalAfter == 0 || totalAfter-totalBefore == q {
		return
	}
	m.mu.Lock()
	m.faultCall = k
	m.faultR1 = m.x.recvN.Load()
	if m.x.sys != nil {
		m.faultL = m.x.sys.outLen()
	} else {
		m.faultLUnknown = true // the scheduler ran before the constructor returned to the harness
	}
	m.faultIn = m.x.inRecv.Load()
	m.faultR2 = m.x.recvN.Load()
	m.faultDesc = fmt.Sprintf("call #%d list %v dividend %d kind %s: added %d", k, p, q, f.Kind, totalAfter-totalBefore)
	m.mu.Unlock()
	m.faulted.Store(true)
}

// report turns contract breaches into findings and copies statistics.
func (m *divMonitor) report() {
	m.mu.Lock()
	defer m.mu.Unlock()
	for _, c := range m.contract {
		m.x.res.Findings = append(m.x.res.Findings, pFinding{"C15", "contract", c})
	}
	m.contract = nil
	m.x.res.FaultInfo = m.faultDesc
}

// afterFault — C15: after a faulty round division the discipline reports ErrDividerBad,
// delivers nothing from that division, and terminates once in-flight items are released.
func (x *prioExec) afterFault() {
	m := x.mon
	x.ctl.SetPhase("await-error-after-divider-fault", "C15")
	deadline := time.Now().Add(prioL)
	if x.ignoreErr && x.sc.isV1() {
		// nobody reads Err(): the user of a v1 discipline notices nothing and stops it some time
		// later - Stop() must return whatever has (not) been read from Err() (C16), and nothing
		// of the discipline may be left afterwards (C19, census by the caller)
		x.startRelease(x.pickRelease(POp{Mode: "all"}))
		time.Sleep(2 * time.Microsecond)
		synctest.Wait()
		x.pull()
		x.startRelease(x.pickRelease(POp{Mode: "all"}))
		ret := make(chan struct{})
		x.stopIssued = true
		x.stopIssuedA.Store(true)
		x.wg.Add(1)
		go func() {
			defer x.wg.Done()
			x.sys.stop()
			close(ret)
		}()
		select {
		case <-ret:
			x.res.ErrIgnored = true
			x.res.Terminated = true
			x.res.TermWay = "divider-fault-then-stop"
		case <-time.After(prioL):
			x.fail("C16", "stop-hangs-after-unread-error", "divider fault (%s), Err() never read: Stop() did not return within %s (virtual)", m.faultDesc, prioL)
			x.logf("goroutines of the bubble: %s", bubbleStacks(x.ctl.bubbleID.Load()))
		}
		return
	}
	ended := func() bool { return x.errClosed || (x.ignoreErr && x.outClosed) }
	for !ended() && time.Now().Before(deadline) {
		synctest.Wait()
		x.pull()
		x.startRelease(x.pickRelease(POp{Mode: "all"}))
		time.Sleep(20 * time.Nanosecond)
	}
	synctest.Wait()
	x.pull()
	m.mu.Lock()
	r1, l, r2, in := m.faultR1, int64(m.faultL), m.faultR2, m.faultIn
	lUnknown := m.faultLUnknown
	desc := m.faultDesc
	m.mu.Unlock()
	if !ended() {
		x.fail("C15", "no-termination-after-fault", "divider fault (%s): every delivered item was released but Err() was not closed within %s (virtual)", desc, prioL)
		return
	}
	if x.ignoreErr {
		// a client that only ranges over Output() and never looks at Err(): termination is the
		// closure of Output(), and nothing of the discipline may remain after it (the census
		// follows); the error value itself is looked at by the runs that do read Err()
		x.res.ErrIgnored = true
	} else if !x.faultSeen {
		x.fail("C15", "no-error-reported", "divider fault (%s): the discipline terminated but Err() never yielded ErrDividerBad (values: %v)", desc, x.res.ErrValues)
	}
	if !x.sc.simple() && !lUnknown {
		total := int64(x.res.Received)
		// one item may be between the channel and the stepper's counter at the fault (the stepper
		// is a single goroutine; it counts an item after it has taken it, also in its non-blocking pulls)
		hi := r2 + l + 1
		_ = in
		if total < r1+l || total > hi {
			x.fail("C15", "delivery-after-fault", "divider fault (%s): %d items had been received and %d were in the output buffer at the fault, but %d were received in total (expected %d..%d): the discipline kept delivering after the fault or lost what it had sent", desc, r1, l, total, r1+l, hi)
		}
	}
	if x.sc.Ver == "v2" && !x.ignoreErr {
		if _, st := x.sys.tryRecv(); st != recvClosed {
			x.fail("C15", "output-open-after-fault", "divider fault (%s): Err() closed but Output() is not closed", desc)
		}
	}
}

// blockedState: the goroutine waits for something (as opposed to running its last instructions).
func blockedState(state string) bool {
	for _, p := range []string{"chan ", "select", "sleep", "sync.", "semacquire"} {
		if strings.HasPrefix(state, p) {
			return true
		}
	}
	return false
}

// injectStop — C16: Stop / cancel / Stop-after-GracefulStop in the current state.
func (x *prioExec) injectStop(op POp) {
	if x.sys.stop == nil || x.stopIssued {
		return
	}
	if op.Mode != "at-once" { // at-once: the constructor has just returned, the discipline's goroutines are still starting
		synctest.Wait()
	}
	blockedWriters := 0
	for _, in := range x.inputs {
		if in.wsCount.Load() > in.wcCount.Load() {
			blockedWriters++
		}
	}
	state := fmt.Sprintf("held=%d/%d out=%d/%d blocked-writers=%d releases-pending=%d", len(x.held), x.sc.H, x.sys.outLen(), x.sys.outCap, blockedWriters, x.relPend.Load())
	class := "idle"
	switch {
	case len(x.held)+x.sys.outLen() >= int(x.sc.H):
		class = "all-handlers-busy"
	case x.sys.outCap > 0 && x.sys.outLen() == x.sys.outCap:
		class = "output-full"
	case blockedWriters > 0:
		class = "producers-blocked"
	case len(x.held) > 0:
		class = "some-in-flight"
	}
	if op.Mode == "at-once" {
		class = "right-after-construction"
	}
	x.res.StopState = op.K + "/" + class
	x.res.StopInjected = true
	x.logf("inject %s in state %s", op.K, state)
	if op.K == "gstop" {
		x.callGraceful()
		time.Sleep(time.Duration(op.D))
		synctest.Wait()
	}
	x.stopIssued = true
	x.stopIssuedA.Store(true)
	variant := op.N % 4 // 1: two concurrent Stop() calls; 2: Stop + cancel together; after completion every further call must return at once
	if op.K == "cancel" {
		x.sys.cancel()
	} else {
		var second atomic.Bool
		second.Store(variant != 1)
		// whichever Stop() call returns, at that very moment no Handle call may be running
		// (looked at inside the calling goroutine, before anything else gets to run)
		atReturn := func() {
			if x.sc.simple() {
				if n := x.sys.entered.Load() - x.sys.returned.Load(); n > 0 {
					x.runningAtStopReturn.Store(n)
				}
			}
			// C19: at the very instant a Stop() call returns, a goroutine started by the discipline
			// may still be running its last instructions, but it cannot be BLOCKED on anything -
			// that would be a goroutine the completed stop has left behind
			for _, g := range censusBubble(x.ctl.bubbleID.Load()) {
				if blockedState(g.State) {
					x.blockedAtStopReturn.CompareAndSwap(nil, g.Text)
					break
				}
			}
		}
		if variant == 1 {
			x.wg.Add(1)
			go func() {
				defer x.wg.Done()
				time.Sleep(time.Duration(op.D%7) * time.Nanosecond) // overlaps the first call while it is in progress
				x.sys.stop()
				atReturn()
				second.Store(true)
			}()
		}
		if variant == 2 {
			x.sys.cancel()
		}
		x.wg.Add(1)
		go func() {
			defer x.wg.Done()
			x.sys.stop()
			atReturn()
			for !second.Load() {
				time.Sleep(time.Nanosecond)
			}
			x.stopRet.Store(true)
		}()
	}
	x.ctl.SetPhase("await-stop-completion", "C16")
	deadline := time.Now().Add(prioL)
	done := func() bool {
		x.pollErr()
		if op.K == "cancel" {
			return x.errClosed
		}
		return x.stopRet.Load()
	}
	// nobody reads the output and nobody releases while we wait
	for {
		synctest.Wait()
		if done() || !time.Now().Before(deadline) {
			break
		}
		time.Sleep(50 * time.Nanosecond)
	}
	if !done() {
		x.fail("C16", "stop-hangs:"+class, "%s injected in state [%s] did not complete within %s (virtual): the consumer is not reading and no handler releases", op.K, state, prioL)
		return
	}
	x.pollErr()
	if !x.errClosed {
		x.fail("C16", "stop-not-terminated", "%s returned but Err() is not closed", op.K)
	}
	// C19: Stop() has returned / Err() is closed - whatever the discipline started is gone
	// (looked at 1us virtual later, like every census: what is still there then is blocked or
	// sleeping, e.g. a Handle call that was left behind and is still cleaning up)
	if left := bubbleCensus(x.ctl); left != "" {
		x.fail("C19", "leak-after-stop:"+x.sc.Ver+":"+op.K, "%s has completed but goroutine(s) started by the discipline remain (1us virtual later): %s", op.K, firstLines(left, 10))
	}
	if v := x.blockedAtStopReturn.Load(); v != nil {
		x.fail("C19", "blocked-goroutine-at-stop-return:"+x.sc.Ver, "a Stop() call returned while a goroutine started by the discipline was blocked (two overlapping Stop() calls: %v): %s", variant == 1, firstLines(v.(string), 10))
	}
	if n := x.runningAtStopReturn.Load(); n > 0 {
		x.fail("C16", "handle-running-when-stop-returned", "a Stop() call returned while %d Handle call(s) were still running (two overlapping Stop() calls: %v)", n, variant == 1)
	}
	// after completion nothing more may be written to the output / no Handle call runs
	if x.sc.simple() {
		e0 := x.sys.entered.Load()
		time.Sleep(5 * time.Microsecond)
		synctest.Wait()
		if e1 := x.sys.entered.Load(); e1 != e0 {
			x.fail("C16", "handle-after-stop", "%d Handle call(s) were entered after %s had completed", e1-e0, op.K)
		}
		if en, rt := x.sys.entered.Load(), x.sys.returned.Load(); en != rt {
			x.fail("C16", "handle-running-after-stop", "%d Handle call(s) are still running after %s completed (Handle honours its context)", en-rt, op.K)
		}
	} else {
		n0 := x.sys.outLen()
		time.Sleep(5 * time.Microsecond)
		synctest.Wait()
		if n1 := x.sys.outLen(); n1 != n0 {
			x.fail("C16", "output-after-stop", "the output held %d items when %s completed and %d items 5us later: written after completion", n0, op.K, n1)
		}
	}
	x.pull() // what was sent before completion is still an in-order duplicate-free subsequence
	// once terminated, every further Stop / GracefulStop / cancel returns at once
	again := make(chan struct{})
	x.wg.Add(1)
	go func() {
		defer x.wg.Done()
		x.sys.stop()
		x.sys.graceful()
		x.sys.cancel()
		x.sys.stop()
		close(again)
	}()
	select {
	case <-again:
		x.res.RepeatedStops++
	case <-time.After(prioL):
		x.fail("C16", "repeated-stop-hangs", "after %s had completed, a further Stop() / GracefulStop() / cancel did not return within %s (virtual)", op.K, prioL)
	}
	x.res.Terminated = true
	x.res.TermWay = op.K
}
