package mon

// C20 — no data races under documented concurrent use: every concurrent scenario family is
// run in a race-detector build (real clock for the bulk, a small fake-clock block); the driver
// counts the reports. The real-clock priority runs also feed the load-robust oracles.

import (
	"fmt"
	"math/rand/v2"
	"os"
	"sort"
	"sync"
	"testing"
	"time"

	v1prio "github.com/akramarenkov/cqos/priority"
	"github.com/akramarenkov/cqos/v2/limit"
	"github.com/akramarenkov/cqos/v2/priority/divider"
	"github.com/akramarenkov/cqos/v2/priority/utils"
)

func (r *Run) prioRealCase(t *testing.T, sc PrioRealScenario) *prioRealResult {
	res := runPrioReal(sc)
	if res.Stuck != "" {
		// real clock: only a stall that repeats counts (as inconclusive: liveness is not decided here)
		r.Count("real.stalls_seen_once_and_replayed", 1)
		res = runPrioReal(sc)
	}
	r.Eval(1)
	if res.Rejected != "" {
		r.Count("rejected_by_constructor", 1)
		return res
	}
	for _, f := range res.Findings {
		r.Violation(f.Prop, f.Key+":"+sc.Ver, f.Msg, map[string]any{"scenario": sc})
	}
	if res.Stuck != "" {
		// liveness is not decided on the real clock
		r.Inconclusive("real-clock priority scenario did not finish: " + res.Stuck + " " + jsonString(sc))
		return res
	}
	r.Count("real.items_received", int64(res.Received))
	r.Count("real.items_written", int64(res.Written))
	r.Count("real.handler_goroutines", int64(res.Handlers))
	r.Count("real.control_calls_completed", res.CtlDone)
	r.Count("real.scenarios."+sc.Ver, 1)
	if res.Stopped {
		r.Count("real.rough_stops", 1)
	}
	r.Max("real.max_held", res.MaxHeld)
	return res
}

func TestC20(t *testing.T) {
	r := newRun(t, "C20", "exploration")
	defer r.Finish(t)
	r.Rule = "race-detector build (GORACE halt_on_error=0, every 'WARNING: DATA RACE' block in the log is a witness, deduplicated by outermost frames). Families, all on the real clock with real goroutine populations and random real delays of 0..1.5ms: priority v2 / v1 / v2 simple / v1 Simple with H handler goroutines receiving and releasing, one producer per input, and for v1 AddInput / replace / RemoveInput / Stop / cancel / GracefulStop called from other goroutines; join / unite copy mode with consumers that keep and overwrite slices, no-copy mode with holds, v1 join Stop / cancel; limit with slow and fast consumers; plus a small fake-clock block of the priority and join steppers. Part C (thorough tier) repeats the real-clock families with GODEBUG=asynctimerchan=1 (the timer-channel semantics a go1.22 main module gets). The load-robust oracles of C01/C02/C07/C03/C08/C12 run alongside. non-trivial = a scenario with >= 2 goroutines of the harness concurrently using the discipline that ran to completion; distinct by scenario fingerprint"
	r.Rule += " | also: uninstrumented 'bare' families (nothing shared between harness goroutines, the caller keeps writing to its Inputs map, plain per-item result slots read right after a normal termination and, for v1 Simple, right after Err() closed on Stop / cancel, stops right after construction, two concurrent control goroutines, removal with items in flight) and the pure helpers called concurrently with shared arguments"
	r.Assumptions = []string{"the Go race detector reports only races on executed paths and within its history window", "scenarios use the API as documented (H handlers, one release per item, control calls one at a time)"}
	r.Floor = 30
	if r.Cfg.Replay != "" {
		t.Log("race reports are not replayable scenarios: re-run the check")
		return
	}
	part := r.Cfg.Part
	if (part == "" || part == "B") && os.Getenv("VERIF_RACE_NO_BUBBLES") == "" {
		// small fake-clock block (the race build is kept away from thousands of bubbles, see C08)
		r.Parallel(t, "race-virtual-priority", r.Cfg.pick(120, 200), func(t *testing.T, idx int, rng *rand.Rand) {
			c := r.prioCase(t, genPrioScenario(rng, prioGen{Vers: allVers, Dividers: allDividers, Mode: []string{"general", "terminate", "stop"}[rng.IntN(3)], MaxH: 24}))
			if c.res != nil && c.res.Terminated {
				r.NonTrivial(jsonString(c.sc))
			}
		})
		r.Parallel(t, "race-virtual-join", r.Cfg.pick(120, 200), func(t *testing.T, idx int, rng *rand.Rand) {
			res := r.joinCase(t, genJoinScenario(rng, joinGen{Discs: []string{"v1join", "v2join", "unite"}, Retain: true, Stop: 1}), rng)
			if res.tr != nil && res.tr.Closed {
				r.NonTrivial(jsonString(res.sc))
			}
		})
	}
	prioReal := func(vers []string, ctl bool) func(t *testing.T, idx int, rng *rand.Rand) {
		return func(t *testing.T, idx int, rng *rand.Rand) {
			sc := genPrioRealScenario(rng, vers, ctl)
			res := r.prioRealCase(t, sc)
			if res.Rejected == "" && res.Stuck == "" {
				r.NonTrivial(jsonString(sc))
				if r.WantSample() {
					r.Sample(map[string]any{"scenario": sc, "received": res.Received, "max_held": res.MaxHeld, "control_calls": res.CtlDone})
				}
			}
		}
	}
	joinReal := func(g joinGen) func(t *testing.T, idx int, rng *rand.Rand) {
		return func(t *testing.T, idx int, rng *rand.Rand) {
			res := r.joinCase(t, genJoinScenario(rng, g), rng)
			if res.tr != nil && res.tr.Rejected == "" && (res.tr.Closed || res.sc.StopKind != "") {
				r.NonTrivial(jsonString(res.sc))
			}
		}
	}
	scale := 1
	if part == "C" {
		scale = 2 // the asynctimerchan=1 part runs only the real-clock families
	}
	discs := []string{"v1join", "v2join", "unite", "unite"}
	r.Parallel(t, "real-priority", r.Cfg.pick(260, 6000)/scale, prioReal(allVers, false))
	r.Parallel(t, "real-priority-v1-control", r.Cfg.pick(160, 4000)/scale, prioReal([]string{"v1"}, true))
	// no instrumentation at all (nothing shared between harness goroutines, bare divider, Handle
	// touching only its argument), the caller keeps writing to its Inputs map, Stop / cancel
	// also immediately after the constructor: only the race detector looks at these runs
	bare := func(earlyStopOnly bool) func(t *testing.T, idx int, rng *rand.Rand) {
		return func(t *testing.T, idx int, rng *rand.Rand) {
			bareCase(r, genPrioBareScenario(rng, earlyStopOnly))
		}
	}
	r.Parallel(t, "bare-priority", r.Cfg.pick(400, 8000)/scale, bare(false))
	// the same, but every run stops a v1 discipline (mostly Simple) right after its constructor
	// v1: inputs removed while their items are being handled, graceful end, results read at once
	r.Parallel(t, "bare-v1-remove-with-items-in-flight", r.Cfg.pick(200, 3000)/scale, func(t *testing.T, idx int, rng *rand.Rand) {
		bareCase(r, genPrioBareRemoveScenario(rng))
	})
	r.Parallel(t, "bare-v1-stop-right-after-construction", r.Cfg.pick(250, 4000)/scale, bare(true))
	// the pure helpers called from several goroutines at once with the same (read-only) arguments
	r.Parallel(t, "concurrent-pure-functions", r.Cfg.pick(150, 2000)/scale, func(t *testing.T, idx int, rng *rand.Rand) {
		concurrentPureCase(r, rng)
	})
	r.Parallel(t, "real-join-copy", r.Cfg.pick(200, 4000)/scale, joinReal(joinGen{Discs: discs, NoCopy: -1, Retain: true, Real: true}))
	r.Parallel(t, "real-join-nocopy", r.Cfg.pick(200, 4000)/scale, joinReal(joinGen{Discs: discs, NoCopy: 1, Retain: true, Real: true}))
	r.Parallel(t, "real-join-v1-stop", r.Cfg.pick(150, 3000)/scale, joinReal(joinGen{Discs: []string{"v1join"}, Stop: 1, Real: true}))
	r.Parallel(t, "real-join-v1-stop-before-release", r.Cfg.pick(300, 4000)/scale, joinReal(joinGen{Discs: []string{"v1join"}, NoCopy: 1, Stop: 2, Real: true}))
	r.Parallel(t, "real-limit", r.Cfg.pick(150, 3000)/scale, func(t *testing.T, idx int, rng *rand.Rand) {
		res := r.limitCase(t, genLimitScenario(rng, limitGen{Real: true}))
		if res.tr != nil && res.tr.Closed {
			r.NonTrivial(jsonString(res.sc))
		}
	})
	r.processCensus("real-all")
}

func bareCase(r *Run, sc PrioRealScenario) {
	res := runPrioBare(sc)
	if res.Stuck != "" {
		r.Count("real.stalls_seen_once_and_replayed", 1)
		res = runPrioBare(sc)
	}
	r.Eval(1)
	switch {
	case res.Rejected:
		r.Count("rejected_by_constructor", 1)
	case res.Stuck != "":
		r.Inconclusive("bare real-clock priority scenario did not finish: " + res.Stuck + " " + jsonString(sc))
	default:
		r.Count("bare.scenarios."+sc.Ver, 1)
		r.Count("bare.writes_to_the_callers_inputs_map", int64(res.MapWrites))
		r.Count("bare.control_calls", int64(res.CtlCalls))
		if res.EarlyStop {
			r.Count("bare.stop_or_cancel_right_after_construction", 1)
		}
		if res.ResultsRead {
			r.Count("bare.scenarios_whose_handler_results_were_read_right_after_normal_termination", 1)
			r.Count("bare.handler_result_slots_read", int64(res.Handled))
			if res.RoughRead {
				r.Count("bare.v1_simple_scenarios_whose_handler_results_were_read_right_after_Err_closed_on_stop_or_cancel", 1)
			}
		}
		if res.TwoControllers && res.CtlCalls >= 2 {
			r.Count("bare.v1_scenarios_with_two_concurrent_control_goroutines", 1)
		}
		r.NonTrivial("bare:" + jsonString(sc))
	}
}

// concurrentPureCase: 4 goroutines call the dividers, the handler-quantity helpers and the Rate
// methods of both module versions with one shared priorities slice (unsorted, as a caller may
// pass it) - arguments are the caller's data and are only ever read by contract.
func concurrentPureCase(r *Run, rng *rand.Rand) {
	prios := genPrioList(rng, 6, 64)
	rng.Shuffle(len(prios), func(i, j int) { prios[i], prios[j] = prios[j], prios[i] })
	sorted := append([]uint(nil), prios...)
	sort.Slice(sorted, func(i, j int) bool { return sorted[i] > sorted[j] })
	q := uint(1 + rng.IntN(40))
	lim := uint(rng.IntN(101))
	rate := limit.Rate{Interval: time.Duration(1+rng.IntN(1000)) * time.Millisecond, Quantity: uint64(1 + rng.IntN(100000))}
	var wg sync.WaitGroup
	for g := 0; g < 4; g++ {
		wg.Add(1)
		go func(g int) {
			defer wg.Done()
			for k := 0; k < 3; k++ {
				switch (g + k) % 4 {
				case 0:
					utils.IsNonFatalConfig(prios, divider.Rate, q)
					utils.PickUpMinNonFatalQuantity(prios, divider.Fair, 2*q)
					utils.IsSuitableConfig(prios, divider.Fair, q, float64(lim))
				case 1:
					v1prio.IsNonFatalConfig(prios, v1prio.RateDivider, q)
					v1prio.PickUpMaxNonFatalQuantity(prios, v1prio.FairDivider, 2*q)
					v1prio.IsSuitableConfig(prios, v1prio.FairDivider, q, float64(lim))
				case 2:
					divider.Fair(sorted, q, map[uint]uint{})
					divider.Rate(sorted, q, map[uint]uint{})
					v1prio.FairDivider(sorted, q, nil)
					v1prio.RateDivider(sorted, q, nil)
				default:
					_, _ = rate.Optimize()
					_, _ = rate.Flatten()
					utils.PickUpMaxSuitableQuantity(prios, divider.Rate, 2*q, float64(lim))
					v1prio.PickUpMinSuitableQuantity(prios, v1prio.RateDivider, 2*q, float64(lim))
				}
			}
		}(g)
	}
	wg.Wait()
	r.Eval(1)
	r.Count("concurrent_pure.cases", 1)
	r.NonTrivial(fmt.Sprintf("pure:%v/%d/%d", prios, q, lim))
}
