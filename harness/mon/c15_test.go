package mon

// C15 — divider contract monitor and fault enumeration.

import (
	"fmt"
	"math/rand/v2"
	"sort"
	"testing"

	v2prio "github.com/akramarenkov/cqos/v2/priority"
	"github.com/akramarenkov/cqos/v2/priority/divider"
)

func TestC15(t *testing.T) {
	r := newRun(t, "C15", "fault_enumeration")
	defer r.Finish(t)
	r.Rule = "(1) contract monitor: the configured divider is wrapped in every scenario of the families general / v1 add-remove (all variants, Fair/Rate/custom dividers); each of its calls is checked: list strictly descending, every element configured (v1: from the start of AddInput until RemoveInput has returned), dividend <= H, v2: non-nil distribution. (2) fault enumeration: per base scenario a fault-free run counts the divider calls K; one fault {+1 to the first listed key, double the increments, -1 from a non-zero increment, +1 to a configured priority that is NOT in the list (lists that are a strict subset)} is then placed at EVERY call index in [0, W] (W = min(K, 45)), at a seeded sample of later indices, and by state trigger (first round division with j items in flight for j in 0..min(H,10), first with a list of m priorities for m in 1..P, first remainder division of a second phase); a placement counts only if the returned added total is non-zero and differs from the dividend. Oracle per injected fault: creation (v2): New returns ErrDividerBad; otherwise Err() yields ErrDividerBad, total received lies in [received-at-fault + len(output)-at-fault, same+1], capacity bound keeps holding, Err()/Output() close within 50us virtual after the harness releases what it holds. (3) constructor: (priorities, divider, H) grid, some listed priority with a zero or absent share => v2 New must fail. non-trivial = a run in which a fault was actually injected; distinct by (scenario, placement, kind)"
	r.Rule += " | also: the first round division after GracefulStop() was requested (v1)"
	r.Assumptions = []string{prioAssume, "a single divider fault per run"}
	r.Floor = 30
	if replayPrio(t, r) {
		return
	}

	// (1) contract monitor over the ordinary scenario families
	contract := func(g prioGen) func(t *testing.T, idx int, rng *rand.Rand) {
		return func(t *testing.T, idx int, rng *rand.Rand) {
			c := r.prioCase(t, genPrioScenario(rng, g))
			if c.res != nil {
				r.Count("contract_checked_divider_calls", int64(c.res.DivCalls))
			}
		}
	}
	r.Parallel(t, "contract-general", r.Cfg.pick(500, 15000), contract(prioGen{Vers: allVers, Dividers: allDividers, Mode: "general"}))
	r.Parallel(t, "contract-v1-add-remove", r.Cfg.pick(300, 8000), contract(prioGen{Vers: []string{"v1"}, Dividers: allDividers, Mode: "addrm"}))
	r.Parallel(t, "contract-v1-priority-without-share", r.Cfg.pick(300, 6000), contract(prioGen{Vers: []string{"v1", "v1", "v1s"}, Dividers: allDividers, Mode: "general", Starve: true}))

	// (2) fault enumeration
	kinds := []string{"plus1", "double", "minus1", "outside"}
	r.Parallel(t, "fault-enumeration", r.Cfg.pick(80, 1500), func(t *testing.T, idx int, rng *rand.Rand) {
		base := genPrioScenario(rng, prioGen{Vers: allVers, Dividers: []string{"fair", "rate", "revfair", "hashw"}, Mode: "general", MaxH: 20})
		for base.H > 24 {
			base = genPrioScenario(rng, prioGen{Vers: allVers, Dividers: []string{"fair", "rate", "revfair", "hashw"}, Mode: "general", MaxH: 20})
		}
		c0 := r.prioCase(t, base)
		if c0.res == nil || c0.res.Rejected != "" {
			return
		}
		K := c0.res.DivCalls
		var faults []DivFault
		W := min(K, 45)
		for k := 0; k <= W; k++ {
			for _, kind := range kinds {
				faults = append(faults, DivFault{At: k, Kind: kind})
			}
		}
		for i := 0; i < 12 && K > W+1; i++ {
			faults = append(faults, DivFault{At: W + 1 + rng.IntN(K-W-1), Kind: kinds[rng.IntN(len(kinds))]})
		}
		for j := 0; j <= min(int(base.H), 10); j++ {
			faults = append(faults, DivFault{At: -1, Kind: kinds[rng.IntN(len(kinds))], Trigger: fmt.Sprintf("inflight=%d", j)})
		}
		for m := 1; m <= len(base.Inputs); m++ {
			faults = append(faults, DivFault{At: -1, Kind: kinds[rng.IntN(len(kinds))], Trigger: fmt.Sprintf("listlen=%d", m)})
		}
		for m := 1; m < len(base.Inputs); m++ { // a handler for a configured priority outside a list of m < P priorities
			faults = append(faults, DivFault{At: -1, Kind: "outside", Trigger: fmt.Sprintf("listlen=%d", m)})
		}
		faults = append(faults, DivFault{At: -1, Kind: "plus1", Trigger: "after-H"}, DivFault{At: -1, Kind: "minus1", Trigger: "after-H"})
		if base.isV1() { // a division that goes wrong once GracefulStop() has been requested
			faults = append(faults, DivFault{At: -1, Kind: "plus1", Trigger: "after-graceful"}, DivFault{At: -1, Kind: "double", Trigger: "after-graceful"}, DivFault{At: -1, Kind: "minus1", Trigger: "after-graceful"})
		}
		for _, f := range faults {
			if r.Stopped() {
				return
			}
			sc := base
			f := f
			sc.Fault = &f
			c := r.prioCase(t, sc)
			if c.res == nil {
				continue
			}
			r.Count("fault_placements_tried", 1)
			if !c.res.FaultHit {
				continue
			}
			r.Count("faults_injected", 1)
			r.Count("faults_injected.kind."+f.Kind, 1)
			where := "round"
			if c.res.Rejected != "" {
				where = "creation"
			}
			r.Count("faults_injected.at."+where, 1)
			if f.Trigger != "" {
				r.Distinct("state_triggers_hit", f.Trigger)
			} else {
				r.Distinct("call_indices_hit", fmt.Sprint(f.At))
			}
			r.NonTrivial(jsonString(sc))
			if r.WantSample() && where == "round" {
				s := prioSample(c)
				s["fault"] = c.res.FaultInfo
				s["err_values"] = c.res.ErrValues
				r.Sample(s)
			}
		}
	})

	// (3) constructor: a zero (or absent) share for a listed priority must be rejected
	r.Parallel(t, "constructor", r.Cfg.pick(64, 1000), func(t *testing.T, idx int, rng *rand.Rand) {
		var prios []uint
		if idx < len(prioPools) {
			prios = append(prios, prioPools[idx]...)
		} else {
			prios = genPriorities(rng)
		}
		sort.Slice(prios, func(i, j int) bool { return prios[i] > prios[j] })
		for _, kind := range []string{"fair", "rate", "toprem", "hashw"} {
			div := customDivider(kind, 7)
			for h := uint(0); h <= 120; h++ {
				shares := sharesOf(div, prios, h)
				zero := false
				for _, p := range prios {
					if shares[p] == 0 {
						zero = true
					}
				}
				inputs := map[uint]<-chan int{}
				for _, p := range prios {
					ch := make(chan int)
					close(ch)
					inputs[p] = ch
				}
				d, err := v2prio.New(v2prio.Opts[int]{Divider: divider.Divider(div), HandlersQuantity: h, Inputs: inputs})
				r.Count("constructor_calls", 1)
				if err == nil {
					for range d.Output() {
					}
					<-d.Err()
				}
				if zero {
					r.Count("constructor_calls_with_a_zero_share", 1)
					if err == nil {
						r.Violation("C15", fmt.Sprintf("constructor:%s:%v:H=%d", kind, prios, h), fmt.Sprintf("v2 New accepted priorities %v with divider %s and %d handlers although the shares are %v (a listed priority gets nothing)", prios, kind, h, shares),
							map[string]any{"priorities": prios, "divider": kind, "handlers": h, "shares": shares})
					}
				}
			}
		}
		r.Eval(1)
	})
}
