// Package mon holds the runtime monitors for akramarenkov/cqos (see /verif/DESIGN.md).
package mon
