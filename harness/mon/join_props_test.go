package mon

// C03, C09, C10, C11 (and the shared campaign runner used by C08) — join / unite monitors.

import (
	"fmt"
	"math/rand/v2"
	"testing"
	"time"
)

type joinCaseResult struct {
	leaked   string
	censused bool
	sc       JoinScenario
	tr       *JoinTrace
	fs       []joinFinding
	st       joinStats
}

// joinCase runs one scenario (in a bubble unless it is a real-time one), judges it, records
// every finding (the Run keeps only those of its own property) and common coverage counters.
func (r *Run) joinCase(t *testing.T, sc JoinScenario, rng *rand.Rand) joinCaseResult {
	res := joinCaseResult{sc: sc}
	inBubble := !sc.Real
	if inBubble {
		out := r.runBubble(t, 60*time.Second, jsonString(sc), func(ctl *bubbleCtl) {
			ctl.SetPhase("join-scenario", "")
			res.tr = runJoin(sc, true, rng)
			if r.wantCensus() && res.tr != nil && res.tr.Rejected == "" && (res.tr.Closed || res.tr.StopRet >= 0) {
				res.leaked = bubbleCensus(ctl)
				res.censused = true
			}
		})
		if res.censused {
			r.Count("goroutine_censuses", 1)
			way := "input-closed"
			if sc.StopKind != "" {
				way = sc.StopKind
			}
			r.Count("census."+sc.Disc+"."+way, 1)
			if res.leaked != "" {
				r.Violation("C19", "leak:"+sc.Disc+":"+way, "goroutine(s) started by the "+sc.Disc+" discipline remain after it terminated ("+way+"): "+firstLines(res.leaked, 12),
					map[string]any{"scenario": sc, "stacks": res.leaked})
			}
		}
		if out.Deadlock != "" && res.tr != nil && res.tr.StuckMsg == "" && res.tr.Rejected == "" {
			// goroutines were left blocked in the bubble although the scenario completed
			r.Violation("C19", "leak:"+sc.Disc, "goroutines remained blocked after the "+sc.Disc+" scenario ended: "+out.Deadlock,
				map[string]any{"scenario": sc, "stacks": out.Stacks})
		}
	} else {
		res.tr = runJoin(sc, false, rng)
		if res.tr != nil && (res.tr.StuckMsg != "" || res.tr.StopRet == -1) {
			// real clock: a wall-clock bound expired. On a loaded machine that alone proves
			// nothing; the scenario is played once more and only a stall that repeats is judged
			r.Count("real.stalls_seen_once_and_replayed", 1)
			res.tr = runJoin(sc, false, rng)
		}
	}
	if res.tr == nil {
		r.Inconclusive("join scenario produced no trace: " + jsonString(sc))
		return res
	}
	r.Eval(1)
	if res.tr.Rejected != "" {
		r.Count("rejected_by_constructor", 1)
		return res
	}
	res.fs, res.st = judgeJoin(sc, res.tr, inBubble)
	for _, f := range res.fs {
		r.Violation(f.Prop, f.Key+":"+sc.Disc, f.Msg, map[string]any{"scenario": sc, "outputs": outputsOf(res.tr), "input_slices": inputsOf(res.tr)})
	}
	r.Count("output_slices", int64(len(res.tr.Out)))
	r.Count("input_writes", int64(len(res.tr.In)))
	r.Count("short_nonfinal_slices(timeout flushes)", int64(res.st.TimeoutFlushes))
	r.Count("maximal_slices(full flushes)", int64(res.st.FullFlushes))
	r.Count("oversize_forwards", int64(res.st.Oversize))
	r.Distinct("scenario_class", sc.class())
	return res
}

func outputsOf(tr *JoinTrace) []map[string]any {
	var out []map[string]any
	for i, o := range tr.Out {
		if i >= 40 {
			break
		}
		out = append(out, map[string]any{"recv_ns": o.Recv, "data": o.Data, "release_start_ns": o.RelStart})
	}
	return out
}

func inputsOf(tr *JoinTrace) []map[string]any {
	var out []map[string]any
	for i, in := range tr.In {
		if i >= 60 {
			break
		}
		out = append(out, map[string]any{"positions": []int{in.A, in.B}, "write_start_ns": in.WS, "write_done_ns": in.WC})
	}
	return out
}

func sampleOf(res joinCaseResult) map[string]any {
	return map[string]any{"scenario": res.sc, "outputs": outputsOf(res.tr)}
}

func replayJoin(t *testing.T, r *Run) bool {
	if r.Cfg.Replay == "" {
		return false
	}
	var doc struct {
		Witness struct{ Scenario JoinScenario }
	}
	if err := readJSON(r.Cfg.Replay, &doc); err != nil {
		t.Fatal(err)
	}
	fired := 0
	for i := 0; i < 50; i++ {
		before := r.ViolationCount()
		r.joinCase(t, doc.Witness.Scenario, r.Cfg.caseRNG("replay", i))
		if r.ViolationCount() > before {
			fired++
		}
	}
	r.Extra["replay_runs"] = 50
	r.Extra["replay_runs_violating"] = fired
	t.Logf("replay: %d of 50 runs violated", fired)
	return true
}

func TestC03(t *testing.T) {
	r := newRun(t, "C03", "exploration")
	defer r.Finish(t)
	r.Rule = "cases = generated scenarios for {v1 join, v2 join, v2 unite}: JoinSize 1..8 / 32..256, copy / no-copy, Timeout none / ns / us / ms / s (v1 >= d*10ms), inaccuracy 1..100, input capacity 0..3J, producer script of (gap, element | slice length in {0,1,<J,=J,>J,>>J}, re-sent slice objects), gaps from {0, <T/2, ~T, <=3T, tick multiples}, consumer eager / delayed / retaining; run on the fake clock (synctest bubble) and, in a second block, on the real clock; oracle offline after the output closed: concatenation equality, no empty slice, size bounds. non-trivial = a scenario in which at least one timeout flush (short non-final slice) and one full flush occurred; distinct by scenario fingerprint"
	r.Assumptions = []string{"testing/synctest fake clock of go1.26.8", "unique element identities (a stream 0,1,2,...; re-sent slices compared positionally)"}
	r.Floor = 20
	if replayJoin(t, r) {
		return
	}
	g := joinGen{Discs: []string{"v1join", "v2join", "unite", "unite"}, Retain: true}
	r.Parallel(t, "virtual", r.Cfg.pick(12000, 400000), func(t *testing.T, idx int, rng *rand.Rand) {
		res := r.joinCase(t, genJoinScenario(rng, g), rng)
		if res.tr != nil && res.tr.Closed && res.st.TimeoutFlushes > 0 && res.st.FullFlushes > 0 {
			r.NonTrivial(jsonString(res.sc))
			if r.WantSample() {
				r.Sample(sampleOf(res))
			}
		}
	})
	gr := g
	gr.Real = true
	r.Parallel(t, "real", r.Cfg.pick(400, 6000), func(t *testing.T, idx int, rng *rand.Rand) {
		res := r.joinCase(t, genJoinScenario(rng, gr), rng)
		r.Count("real_time_scenarios", 1)
		if res.tr != nil && res.tr.Closed && res.st.TimeoutFlushes > 0 && res.st.FullFlushes > 0 {
			r.NonTrivial(jsonString(res.sc))
		}
	})
}

func TestC09(t *testing.T) {
	r := newRun(t, "C09", "exploration")
	defer r.Finish(t)
	r.Rule = "same scenario families as C03 (fake clock block + real clock block), mixed slice lengths around the fit boundary; oracle: without timeout every non-final join slice has exactly JoinSize elements and every non-final unite slice is maximal (reached JoinSize or the next non-empty input slice would not have fitted); with timeout a non-final non-maximal slice k satisfies recv_k - ws(last element of slice k-1) >= Timeout (first slice: recv_0 - T0 >= Timeout), and on the fake clock with an always-ready consumer recv_k - recv_{k-1} >= Timeout. non-trivial = scenario with at least one short non-final slice (timeout case) or at least 3 output slices (no-timeout case); distinct by scenario fingerprint"
	r.Assumptions = []string{"testing/synctest fake clock of go1.26.8", "stamps: write-start before the channel send, receive stamp after the receive (lower bounds are sound under any load)"}
	r.Floor = 20
	if replayJoin(t, r) {
		return
	}
	g := joinGen{Discs: []string{"v1join", "v2join", "unite", "unite"}}
	var minGap int64 = 1 << 62
	minCh := make(chan int64, 1024)
	doneCh := make(chan struct{})
	go func() {
		for v := range minCh {
			if v < minGap {
				minGap = v
			}
		}
		close(doneCh)
	}()
	body := func(gg joinGen) func(t *testing.T, idx int, rng *rand.Rand) {
		return func(t *testing.T, idx int, rng *rand.Rand) {
			res := r.joinCase(t, genJoinScenario(rng, gg), rng)
			if res.tr == nil || !res.tr.Closed {
				return
			}
			if (res.sc.Timeout > 0 && res.st.TimeoutFlushes > 0) || (res.sc.Timeout <= 0 && len(res.tr.Out) >= 3) {
				r.NonTrivial(jsonString(res.sc))
				if res.st.TimeoutFlushes > 0 {
					minCh <- res.st.MinTimeoutGap
				}
				if r.WantSample() && res.st.TimeoutFlushes > 0 {
					r.Sample(sampleOf(res))
				}
			}
		}
	}
	r.Parallel(t, "virtual", r.Cfg.pick(12000, 400000), body(g))
	ge := g
	ge.EagerOnly = true
	ge.Timeout = 1
	r.Parallel(t, "virtual-eager-timeout", r.Cfg.pick(6000, 200000), body(ge))
	gr := g
	gr.Real = true
	r.Parallel(t, "real", r.Cfg.pick(300, 5000), body(gr))
	close(minCh)
	<-doneCh
	r.Extra["min_margin_ns_of_short_slices_over_timeout"] = minGap
}

func TestC10(t *testing.T) {
	r := newRun(t, "C10", "exploration")
	defer r.Finish(t)
	r.Rule = "fake clock only, consumer always ready (blocked in receive; no-copy releases at once) so acceptance instant = write-completion instant; scenarios for {v1 join, v2 join, unite} with Timeout > 0 from a few ns to seconds, inaccuracy 1..100, arrival patterns: single element then silence with the input left open, steady trickle with gaps just under Timeout, tick-aligned gaps, bursts; oracle offline per output slice: (recv - wc(oldest element)) * d <= Timeout * (d+1), d = floor(100/inaccuracy). non-trivial = at least one slice was flushed by timeout; distinct by scenario fingerprint"
	r.Assumptions = []string{"testing/synctest fake clock of go1.26.8 (computation takes zero virtual time, so no scheduling-latency term is needed)"}
	r.Floor = 20
	if replayJoin(t, r) {
		return
	}
	var maxPermil int64
	ch := make(chan int64, 1024)
	done := make(chan struct{})
	go func() {
		for v := range ch {
			if v > maxPermil {
				maxPermil = v
			}
		}
		close(done)
	}()
	body := func(g joinGen) func(t *testing.T, idx int, rng *rand.Rand) {
		return func(t *testing.T, idx int, rng *rand.Rand) {
			res := r.joinCase(t, genJoinScenario(rng, g), rng)
			if res.tr == nil || !res.tr.Closed {
				return
			}
			ch <- res.st.MaxWaitPermil
			if res.st.TimeoutFlushes > 0 {
				r.NonTrivial(jsonString(res.sc))
				if r.WantSample() {
					s := sampleOf(res)
					s["max_wait_permil_of_timeout"] = res.st.MaxWaitPermil
					r.Sample(s)
				}
			}
		}
	}
	r.Parallel(t, "trickle", r.Cfg.pick(10000, 300000), body(joinGen{Discs: []string{"v1join", "v2join", "unite"}, Timeout: 1, EagerOnly: true, Trickle: true}))
	r.Parallel(t, "mixed", r.Cfg.pick(8000, 300000), body(joinGen{Discs: []string{"v1join", "v2join", "unite"}, Timeout: 1, EagerOnly: true}))
	close(ch)
	<-done
	r.Extra["max_observed_wait_permil_of_timeout"] = maxPermil
	r.Extra["bound_note"] = fmt.Sprintf("bound is 1000*(1+1/d) permil, e.g. 1250 for the default inaccuracy 25%%; max observed %d", maxPermil)
}

func TestC11(t *testing.T) {
	r := newRun(t, "C11", "exploration")
	defer r.Finish(t)
	r.Rule = "unite only; scenarios as in C03 with slice lengths from {0,1,<J,=J,>J,>>J} and re-sent slice objects, timeouts firing between arrivals (fake clock block + real clock block); oracle offline and positional (after concatenation equality): every non-empty input slice lies wholly inside exactly one output slice, an input slice of >= JoinSize elements is an output slice of its own. non-trivial = scenario with >= 2 output slices, an input slice >= JoinSize and a timeout or fit flush; distinct by scenario fingerprint"
	r.Rule += " | also: consumers that write over the whole capacity of the slices they own; window slices of one shared array with the search-based oracle; timeouts of years"
	r.Assumptions = []string{"testing/synctest fake clock of go1.26.8"}
	r.Floor = 20
	if replayJoin(t, r) {
		return
	}
	body := func(g joinGen) func(t *testing.T, idx int, rng *rand.Rand) {
		return func(t *testing.T, idx int, rng *rand.Rand) {
			res := r.joinCase(t, genJoinScenario(rng, g), rng)
			if res.tr == nil || !res.tr.Closed {
				return
			}
			if len(res.tr.Out) >= 2 && res.st.Oversize > 0 && res.st.TimeoutFlushes+res.st.FullFlushes > 0 {
				r.NonTrivial(jsonString(res.sc))
				if r.WantSample() {
					s := sampleOf(res)
					s["input_slices"] = inputsOf(res.tr)
					r.Sample(s)
				}
			}
		}
	}
	r.Parallel(t, "virtual", r.Cfg.pick(12000, 400000), body(joinGen{Discs: []string{"unite"}}))
	// consumers that keep what they received and write all over it (copy mode: over the whole
	// capacity of the slice, which is theirs): a slice that shares memory with a later output or
	// with the producer's slices destroys an input slice before it has been seen whole
	r.Parallel(t, "virtual-retaining", r.Cfg.pick(4000, 80000), body(joinGen{Discs: []string{"unite"}, Retain: true}))
	r.Parallel(t, "real", r.Cfg.pick(300, 5000), body(joinGen{Discs: []string{"unite"}, Real: true}))
}
