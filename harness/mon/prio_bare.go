package mon

// "Bare" real-clock runs of the priority disciplines for the race detector only (C20).
//
// The instrumented real-clock runner (prio_real.go) keeps counters, logs and a shared PRNG
// behind mutexes and atomics; in the simple variants that code runs inside Handle, i.e. on the
// library's own handler goroutines, and the fake-clock stepper wraps the divider in a monitor
// with a mutex, which the library's main goroutine takes on every division. Every such mutex
// or atomic is a happens-before edge for the race detector and can hide a race between two
// goroutines of the library, or between the library and its caller. Here nothing is shared
// between the harness goroutines and nothing is recorded: each goroutine has its own PRNG, the
// divider is the bare function, Handle touches only its argument. What remains is the
// synchronisation the library itself performs - which is what C20 is about.
//
// The caller also does what it is entitled to do with its own data: it keeps writing to the
// Inputs map it passed to the constructor.

import (
	"context"
	"math/rand/v2"
	"sync"
	"sync/atomic"
	"time"

	v1prio "github.com/akramarenkov/cqos/priority"
	v2prio "github.com/akramarenkov/cqos/v2/priority"
	"github.com/akramarenkov/cqos/v2/priority/divider"
	"github.com/akramarenkov/cqos/v2/priority/simple"
)

type bareResult struct {
	Rejected       bool
	Terminated     bool
	Stuck          string
	MapWrites      int
	CtlCalls       int
	EarlyStop      bool
	TwoControllers bool
	Handled        int // items whose slot said "finished" when the caller read the results after normal termination
	ResultsRead    bool
	RoughRead      bool // ... and the discipline had been ended by Stop() / cancel (v1 Simple)
}

// runPrioBare plays a PrioRealScenario without any instrumentation. It decides nothing itself.
func runPrioBare(sc PrioRealScenario) bareResult {
	var res bareResult
	div := customDivider(sc.Divider, sc.DivSeed)
	ctx, cancelCtx := context.WithCancel(context.Background())
	defer cancelCtx()

	type inp struct {
		p  uint
		ch chan PItem
		n  int
	}
	var ins []inp
	inputs := map[uint]<-chan PItem{}
	for _, in := range sc.Inputs {
		c := make(chan PItem, in.Cap)
		ins = append(ins, inp{in.P, c, in.N})
		inputs[in.P] = c
	}
	// user data of the handlers: one plain (non-atomic) slot per item, written when the handler
	// starts and when it has finished with the item, read by the caller once the discipline
	// has terminated on its own (documented completion point: everything delivered has been
	// handled and released by then). A discipline that reports termination while an item is
	// still being handled makes this a race on user-visible data.
	maxN := 1
	for _, in := range sc.Inputs {
		maxN = max(maxN, in.N)
	}
	for _, c := range sc.Ctl {
		maxN = max(maxN, c.N)
	}
	results := make([][]int8, len(sc.Inputs)+len(sc.Ctl)+1)
	for i := range results {
		results[i] = make([]int8, maxN+1)
	}
	slot := func(it PItem) *int8 {
		if it.Ch >= 0 && it.Ch < len(results) && it.Seq >= 0 && it.Seq < len(results[it.Ch]) {
			return &results[it.Ch][it.Seq]
		}
		return new(int8)
	}
	hold := func(r *rand.Rand) {
		if sc.HoldUs > 0 {
			if d := r.IntN(sc.HoldUs + 1); d > 0 {
				time.Sleep(time.Duration(d) * time.Microsecond)
			}
		}
	}

	done := make(chan struct{})           // closed by this goroutine once Err() is closed
	abort := make(chan struct{})          // closed at the very end: producers leave
	var hwg, pwg, cwg, mwg sync.WaitGroup // handlers, producers, control goroutine, map writer
	var errCh <-chan error
	var stop, graceful, cancel func()
	var addInput func(ch <-chan PItem, p uint)
	var removeInput func(p uint)

	switch sc.Ver {
	case "v2":
		d, err := v2prio.New(v2prio.Opts[PItem]{Divider: divider.Divider(div), HandlersQuantity: sc.H, Inputs: inputs})
		if err != nil {
			res.Rejected = true
			return res
		}
		errCh = d.Err()
		for i := 0; i < int(sc.H); i++ {
			hwg.Add(1)
			go func(seed uint64) {
				defer hwg.Done()
				r := rand.New(rand.NewPCG(seed, 1))
				for x := range d.Output() {
					p := slot(x.Item)
					*p = 1
					hold(r)
					*p = 2
					d.Release(x.Priority)
				}
			}(sc.Seed + uint64(i))
		}
	case "v1":
		out := make(chan v1prio.Prioritized[PItem], sc.OutCap)
		fb := make(chan uint, sc.FbCap)
		d, err := v1prio.New(v1prio.Opts[PItem]{Ctx: ctx, Divider: asV1(div), Feedback: fb, HandlersQuantity: sc.H, Inputs: inputs, Output: out})
		if err != nil {
			res.Rejected = true
			return res
		}
		errCh = d.Err()
		stop, graceful, cancel = d.Stop, d.GracefulStop, cancelCtx
		addInput, removeInput = d.AddInput, d.RemoveInput
		for i := 0; i < int(sc.H); i++ {
			hwg.Add(1)
			go func(seed uint64) {
				defer hwg.Done()
				r := rand.New(rand.NewPCG(seed, 1))
				for {
					select {
					case x := <-out:
						p := slot(x.Item)
						*p = 1
						hold(r)
						*p = 2
						select {
						case fb <- x.Priority:
						case <-done:
							return
						}
					case <-done:
						return
					}
				}
			}(sc.Seed + uint64(i))
		}
	case "v2s":
		holdUs := sc.HoldUs
		handle := func(it PItem) {
			// only the argument, the stack and the item's own slot
			p := slot(it)
			*p = 1
			if holdUs > 0 {
				time.Sleep(time.Duration((it.Seq*7919+it.Ch*104729)%(holdUs+1)) * time.Microsecond)
			}
			*p = 2
		}
		d, err := simple.New(simple.Opts[PItem]{Divider: divider.Divider(div), Handle: handle, HandlersQuantity: sc.H, Inputs: inputs})
		if err != nil {
			res.Rejected = true
			return res
		}
		errCh = d.Err()
	case "v1s":
		holdUs := sc.HoldUs
		handle := func(hctx context.Context, it PItem) {
			p := slot(it)
			*p = 1
			if holdUs > 0 {
				select {
				case <-time.After(time.Duration((it.Seq*7919+it.Ch*104729)%(holdUs+1)) * time.Microsecond):
				case <-hctx.Done():
				}
			}
			*p = 2
		}
		d, err := v1prio.NewSimple(v1prio.SimpleOpts[PItem]{Ctx: ctx, Divider: asV1(div), Handle: handle, HandlersQuantity: sc.H, Inputs: inputs})
		if err != nil {
			res.Rejected = true
			return res
		}
		errCh = d.Err()
		stop, graceful, cancel = d.Stop, d.GracefulStop, cancelCtx
	}

	// a stop that comes before anything else has been started (handlers of the simple
	// variants are still starting)
	roughStop := false
	first := -1
	for i, c := range sc.Ctl {
		if c.Op == "stop" || c.Op == "cancel" {
			roughStop = true
			if c.AfterUs == 0 && i == 0 {
				first = i
			}
		}
	}
	if first == 0 {
		res.EarlyStop = true
		if sc.Ctl[0].Op == "stop" && stop != nil {
			stop()
		} else if cancel != nil {
			cancel()
		}
		res.CtlCalls++
	}

	// the caller goes on using its map (the constructor has returned: the map is the caller's)
	mapDone := make(chan struct{})
	var mapWrites int
	mwg.Add(1)
	go func() {
		defer mwg.Done()
		r := rand.New(rand.NewPCG(sc.Seed, 2))
		decoy := make(chan PItem)
		for {
			for p := range inputs {
				inputs[p] = decoy
			}
			inputs[1000000+uint(r.IntN(4))] = decoy
			mapWrites++
			select {
			case <-mapDone:
				return
			case <-time.After(time.Duration(20+r.IntN(400)) * time.Microsecond):
			}
		}
	}()

	produce := func(ch chan PItem, p uint, id, n, gapUs int, seed uint64, quit chan struct{}) {
		defer pwg.Done()
		r := rand.New(rand.NewPCG(seed, 3))
		for s := 0; s < n; s++ {
			if gapUs > 0 {
				if g := r.IntN(gapUs + 1); g > 0 {
					time.Sleep(time.Duration(g) * time.Microsecond)
				}
			}
			select {
			case ch <- PItem{P: p, Ch: id, Seq: s}:
			case <-abort:
				return
			case <-quit:
				return
			}
		}
		close(ch)
	}
	quits := map[uint]chan struct{}{}
	for i, in := range ins {
		q := make(chan struct{})
		quits[in.p] = q
		pwg.Add(1)
		go produce(in.ch, in.p, i, in.n, sc.Inputs[i].GapUs, sc.Seed+uint64(100+i), q)
	}

	// control calls: from one goroutine, or (every second scenario) from two goroutines at the
	// same time, each owning the priorities of one parity; Stop / cancel / GracefulStop come
	// after both are through (AddInput / RemoveInput must not be called on a stopped discipline)
	var ctlCalls [2]int
	var nextID atomic.Int64
	nextID.Store(int64(len(ins)))
	two := sc.Seed%2 == 0
	part := func(c PRealCtl) int {
		if two && (c.Op == "add" || c.Op == "repl" || c.Op == "rm") {
			return int(c.P % 2)
		}
		return 0
	}
	var bwg sync.WaitGroup
	control := func(me int, own map[uint]chan struct{}) {
		defer cwg.Done()
		if me == 1 {
			defer bwg.Done()
		}
		stopped := false
		waited := false
		for i, c := range sc.Ctl {
			if i == first {
				stopped = true
				continue
			}
			if part(c) != me {
				continue
			}
			time.Sleep(time.Duration(c.AfterUs) * time.Microsecond)
			switch c.Op {
			case "add", "repl":
				if addInput == nil || stopped {
					continue
				}
				ch := make(chan PItem, c.Cap)
				addInput(ch, c.P)
				if q := own[c.P]; q != nil {
					close(q)
				}
				q := make(chan struct{})
				own[c.P] = q
				id := int(nextID.Add(1) - 1)
				pwg.Add(1)
				go produce(ch, c.P, id, c.N, 50, sc.Seed+uint64(200+id), q)
				ctlCalls[me]++
			case "rm":
				if removeInput == nil || stopped || own[c.P] == nil {
					continue
				}
				removeInput(c.P)
				close(own[c.P])
				delete(own, c.P)
				ctlCalls[me]++
			default:
				if two && !waited {
					bwg.Wait()
					waited = true
				}
				switch c.Op {
				case "graceful":
					if graceful != nil {
						go graceful()
						ctlCalls[me]++
					}
				case "stop":
					if stop != nil {
						stopped = true
						stop()
						ctlCalls[me]++
					}
				case "cancel":
					if cancel != nil {
						stopped = true
						cancel()
						ctlCalls[me]++
					}
				}
			}
		}
	}
	ownA, ownB := map[uint]chan struct{}{}, map[uint]chan struct{}{}
	for p, q := range quits {
		if two && p%2 == 1 {
			ownB[p] = q
		} else {
			ownA[p] = q
		}
	}
	cwg.Add(1)
	if two {
		cwg.Add(1)
		bwg.Add(1)
		go control(1, ownB)
	}
	go control(0, ownA)

	// v1: once every producer is through, ask for graceful termination (unless a rough stop is scripted)
	if graceful != nil && !roughStop {
		go func() {
			pw := make(chan struct{})
			go func() { cwg.Wait(); pwg.Wait(); close(pw) }() // producers are only added by the control goroutines
			select {
			case <-pw:
				graceful()
			case <-done:
			}
		}()
	}

	timeout := time.After(60 * time.Second)
wait:
	for {
		select {
		case _, ok := <-errCh:
			if !ok {
				res.Terminated = true
				break wait
			}
		case <-timeout:
			res.Stuck = "the discipline did not terminate within 60s of real time"
			break wait
		}
	}
	if res.Terminated && ((!roughStop && first < 0) || sc.Ver == "v1s") {
		// the discipline ended on its own: the caller looks at what its handlers produced.
		// v1 Simple closes Err() only after its handler goroutines have returned, whichever way
		// it ended (Stop, cancel): there the caller looks after a rough end too, while the
		// Handle calls that were cut short are just finishing
		res.RoughRead = roughStop || first >= 0
		for _, row := range results {
			for _, v := range row {
				if v == 2 {
					res.Handled++
				}
			}
		}
		res.ResultsRead = true
	}
	close(done)
	close(mapDone)
	close(abort)
	if res.Stuck != "" {
		if cancel != nil {
			cancel()
		}
		return res
	}
	hw := make(chan struct{})
	go func() { cwg.Wait(); mwg.Wait(); hwg.Wait(); pwg.Wait(); close(hw) }()
	select {
	case <-hw:
		res.MapWrites = mapWrites
		res.CtlCalls += ctlCalls[0] + ctlCalls[1]
		res.TwoControllers = two && addInput != nil
	case <-time.After(20 * time.Second):
		res.Stuck = "goroutines of the harness did not end after termination"
	}
	return res
}

// genPrioBareScenario: the real-clock generator plus stops right after construction and, for
// v1 without scripted rough stop, control calls.
// genPrioBareRemoveScenario: v1 with control calls, handlers that hold their items for long and
// at least one RemoveInput while the input still carries traffic; the run ends gracefully, so
// the caller reads every handler's result right at the documented completion point.
func genPrioBareRemoveScenario(rng *rand.Rand) PrioRealScenario {
	for {
		sc := genPrioRealScenario(rng, []string{"v1"}, true)
		if len(sc.Inputs) < 2 {
			continue
		}
		sc.HoldUs = 1500
		kept := sc.Ctl[:0]
		hasRm := false
		for _, c := range sc.Ctl {
			if c.Op == "stop" || c.Op == "cancel" {
				continue
			}
			hasRm = hasRm || c.Op == "rm"
			kept = append(kept, c)
		}
		sc.Ctl = kept
		if !hasRm {
			// remove the first input early, while its producer is still writing
			sc.Ctl = append([]PRealCtl{{AfterUs: 100 + rng.IntN(400), Op: "rm", P: sc.Inputs[0].P}}, sc.Ctl...)
		}
		for i := range sc.Inputs {
			if sc.Inputs[i].N < 8 {
				sc.Inputs[i].N = 8 + rng.IntN(20)
			}
		}
		return sc
	}
}

func genPrioBareScenario(rng *rand.Rand, earlyStopOnly bool) PrioRealScenario {
	vers := allVers
	ctl := false
	if rng.IntN(4) == 0 {
		vers, ctl = []string{"v1"}, true
	}
	if earlyStopOnly {
		vers, ctl = []string{"v1s", "v1s", "v1"}, false
	}
	sc := genPrioRealScenario(rng, vers, ctl)
	if (sc.Ver == "v1" || sc.Ver == "v1s") && (earlyStopOnly || rng.IntN(4) == 0) {
		// Stop / cancel immediately after the constructor has returned
		sc.Ctl = append([]PRealCtl{{AfterUs: 0, Op: []string{"stop", "cancel"}[rng.IntN(2)]}}, sc.Ctl...)
	}
	return sc
}
