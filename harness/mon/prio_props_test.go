package mon

// C01, C02, C05, C06, C07 — priority discipline monitors on the fake clock (V-stepper).

import (
	"fmt"
	"math/rand/v2"
	"testing"
	"time"
)

type prioCaseResult struct {
	sc  PrioScenario
	res *prioResult
}

// prioCase runs one scenario in a bubble, records every finding (the Run keeps those of its
// own property) and the common coverage counters.
func (r *Run) prioCase(t *testing.T, sc PrioScenario) prioCaseResult {
	out := prioCaseResult{sc: sc}
	bo := r.runBubble(t, 90*time.Second, jsonString(sc), func(ctl *bubbleCtl) {
		out.res = runPrioV(sc, ctl)
	})
	res := out.res
	if res == nil {
		r.Inconclusive("priority scenario produced no result: " + jsonString(sc))
		return out
	}
	r.Eval(1)
	if res.Rejected != "" {
		r.Count("rejected_by_constructor", 1)
	}
	witness := func() map[string]any {
		log := res.Log
		if len(log) > 150 {
			log = append(append([]string{}, log[:40]...), log[len(log)-110:]...)
		}
		return map[string]any{"scenario": sc, "event_log": log}
	}
	for _, f := range res.Findings {
		r.Violation(f.Prop, f.Key+":"+sc.Ver, f.Msg, witness())
	}
	if bo.Deadlock != "" && res.Leaked == 0 && res.Rejected == "" && len(res.Findings) == 0 && res.Terminated {
		// blocked goroutines were left in the bubble although the census saw none started by the
		// library: these are harness goroutines (e.g. a writer parked on a removed channel)
		r.Count("bubbles_left_with_blocked_harness_goroutines", 1)
	}
	if res.Aborted != "" {
		r.Count("scenarios_cut_short_after_a_violation", 1)
	}
	r.Count("items_received", int64(res.Received))
	r.Count("items_written", int64(res.Written))
	r.Count("release_groups", int64(res.ReleaseGrps))
	r.Count("divider_calls", int64(res.DivCalls))
	if res.CensusTaken {
		r.Count("goroutine_censuses", 1)
	}
	if res.Terminated {
		r.Count("terminated."+res.TermWay, 1)
	}
	r.Distinct("scenario_class", sc.class())
	r.Max("max_held", int64(res.MaxHeld))
	for v := range res.HeldVectors {
		r.Distinct("in_flight_vectors", fmt.Sprintf("H=%d %s", sc.H, v))
	}
	return out
}

func prioSample(c prioCaseResult) map[string]any {
	log := c.res.Log
	if len(log) > 60 {
		log = log[:60]
	}
	return map[string]any{"scenario": c.sc, "event_log_head": log, "received": c.res.Received, "max_held": c.res.MaxHeld, "terminated": c.res.TermWay}
}

func replayPrio(t *testing.T, r *Run) bool {
	if r.Cfg.Replay == "" {
		return false
	}
	var doc struct {
		Witness struct{ Scenario PrioScenario }
	}
	if err := readJSON(r.Cfg.Replay, &doc); err != nil {
		t.Fatal(err)
	}
	if doc.Witness.Scenario.Ver == "" {
		t.Logf("the witness in %s is not a stepper scenario (nothing to re-run): see the file itself", r.Cfg.Replay)
		r.Extra["replay_note"] = "witness is not a replayable scenario"
		r.Floor = 0
		return true
	}
	fired := 0
	for i := 0; i < 50; i++ {
		before := r.ViolationCount()
		r.prioCase(t, doc.Witness.Scenario)
		if r.ViolationCount() > before {
			fired++
		}
	}
	r.Extra["replay_runs"] = 50
	r.Extra["replay_runs_violating"] = fired
	t.Logf("replay: %d of 50 runs violated", fired)
	return true
}

var allVers = []string{"v2", "v2", "v1", "v1", "v2s", "v1s"}
var allDividers = []string{"fair", "rate", "rate", "revfair", "toprem", "hashw"}

const prioAssume = "testing/synctest fake clock and durable-blocking rules of go1.26.8; in-flight is counted as received minus release-started (never above the library's own count); every release is issued from its own goroutine (the documented model is H independent handlers)"

func TestC01(t *testing.T) {
	r := newRun(t, "C01", "exploration")
	defer r.Finish(t)
	r.Rule = "cases = generated scenarios for {v2, v1, v2 simple, v1 Simple}: 1..5 priorities from small/dense/skewed/huge pools, Fair/Rate/custom sum-preserving dividers, H from the minimum the constructor accepts up to ~3x and some 64..700, input capacity 0/1/small/large, prefilled or written later; a single stepper goroutine in a synctest bubble plays a script (write, close, drain to quiescence WITHOUT releasing, release groups in random order/grouping, virtual sleeps, progress probes; v1 block: AddInput/RemoveInput/replace interleaved) against the real discipline and checks after every receive that received - release-started <= H; real-clock blocks: H real handler goroutines with random hold times (and v1 control calls from other goroutines) with an atomic counter incremented after each receive and decremented before each release. non-trivial = scenario in which held = H was reached; distinct by scenario fingerprint"
	r.Rule += " | also: v1 configurations in which a priority gets no share (safety oracles only); one priority alone over its share whose input is closed and seen drained before the others get data; an unbuffered input closed while its items are held; a second consumer on one input; the caller rewriting its Inputs map after New"
	r.Assumptions = []string{prioAssume}
	r.Floor = 20
	if replayPrio(t, r) {
		return
	}
	body := func(g prioGen) func(t *testing.T, idx int, rng *rand.Rand) {
		return func(t *testing.T, idx int, rng *rand.Rand) {
			c := r.prioCase(t, genPrioScenario(rng, g))
			if c.res != nil && c.res.ReachedH {
				r.NonTrivial(jsonString(c.sc))
				if r.WantSample() {
					r.Sample(prioSample(c))
				}
			}
		}
	}
	r.Parallel(t, "general", r.Cfg.pick(3500, 40000), body(prioGen{Vers: allVers, Dividers: allDividers, Mode: "general"}))
	r.Parallel(t, "v1-add-remove", r.Cfg.pick(1000, 12000), body(prioGen{Vers: []string{"v1"}, Dividers: allDividers, Mode: "addrm"}))
	// HandlersQuantity values the v1 constructors accept although some priority gets no share
	r.Parallel(t, "v1-priority-without-share", r.Cfg.pick(800, 10000), func(t *testing.T, idx int, rng *rand.Rand) {
		c := r.prioCase(t, genPrioScenario(rng, prioGen{Vers: []string{"v1", "v1", "v1s"}, Dividers: []string{"rate", "rate", "rate", "hashw", "toprem", "fair"}, Mode: "general", Starve: true}))
		if c.res != nil && c.sc.Starved {
			r.Count("v1_without_share.scenarios", 1)
			if c.res.Stalled != "" {
				r.Count("v1_without_share.stalled_as_documented", 1)
			}
			if c.res.ReachedH {
				r.NonTrivial(jsonString(c.sc))
			}
		}
	})
	// real clock: H handler goroutines with random hold times, atomic in-flight counter
	realBody := func(vers []string, ctl bool) func(t *testing.T, idx int, rng *rand.Rand) {
		return func(t *testing.T, idx int, rng *rand.Rand) {
			sc := genPrioRealScenario(rng, vers, ctl)
			res := r.prioRealCase(t, sc)
			if res.Rejected == "" && res.Stuck == "" && res.MaxHeld >= int64(sc.H) {
				r.NonTrivial(jsonString(sc))
			}
		}
	}
	r.Parallel(t, "real", r.Cfg.pick(200, 5000), realBody(allVers, false))
	r.Parallel(t, "real-v1-control", r.Cfg.pick(100, 3000), realBody([]string{"v1"}, true))
}

func TestC02(t *testing.T) {
	r := newRun(t, "C02", "exploration")
	defer r.Finish(t)
	r.Rule = "same scenario families as C01 (general block and the v1 AddInput/RemoveInput block, where channels that were closed and drained are also replaced); every written item carries (priority, channel, sequence number); single observer of the output: tag = priority of the item's channel, sequence number = next expected of that channel, nothing that was not written; at termination (epilogue closes all inputs and releases everything) the received set equals the written set; simple disciplines: every Handle argument exactly once; real-clock block with H concurrent handlers: exactly-once, tags, and per-priority order decided on receive intervals (if a was written before b on one input, the receive of b must not have returned before the receive of a was called). non-trivial = scenario that terminated normally with >= 2 priorities having carried >= 2 items each; distinct by scenario fingerprint"
	r.Rule += " | also: a second consumer on one input (what it takes is booked as read exactly once elsewhere); the caller rewriting its Inputs map after New; v1 without share; a priority whose share appears when another one is removed"
	r.Assumptions = []string{prioAssume}
	r.Floor = 20
	if replayPrio(t, r) {
		return
	}
	r.Parallel(t, "general", r.Cfg.pick(4000, 50000), func(t *testing.T, idx int, rng *rand.Rand) {
		c := r.prioCase(t, genPrioScenario(rng, prioGen{Vers: allVers, Dividers: allDividers, Mode: "general"}))
		if c.res != nil && c.res.Stolen > 0 {
			r.Count("scenarios_with_a_second_consumer_on_an_input", 1)
			r.Count("items_taken_by_second_consumers", int64(c.res.Stolen))
		}
		if c.res != nil && c.res.Terminated && c.res.TermWay == "drained" && c.res.PriosWith2 >= 2 {
			r.NonTrivial(jsonString(c.sc))
			if r.WantSample() {
				r.Sample(prioSample(c))
			}
		}
	})
	// a priority without share until another one is removed: what is written afterwards is delivered
	r.Parallel(t, "v1-share-appears-after-remove", r.Cfg.pick(400, 6000), func(t *testing.T, idx int, rng *rand.Rand) {
		c := r.prioCase(t, genPrioScenario(rng, prioGen{Vers: []string{"v1"}, Dividers: []string{"fair", "rate", "rate", "hashw", "toprem"}, Mode: "starvedrm"}))
		if c.res != nil && c.res.Unstarved && c.res.Terminated && c.res.TermWay == "drained" {
			r.NonTrivial(jsonString(c.sc))
		}
	})
	r.Parallel(t, "v1-add-remove", r.Cfg.pick(1500, 15000), func(t *testing.T, idx int, rng *rand.Rand) {
		c := r.prioCase(t, genPrioScenario(rng, prioGen{Vers: []string{"v1"}, Dividers: allDividers, Mode: "addrm"}))
		if c.res != nil && c.res.Terminated && c.res.TermWay == "drained" && c.res.PriosWith2 >= 2 {
			r.NonTrivial(jsonString(c.sc))
		}
	})
	// v1 configurations in which some priority gets no share: that priority may starve (no
	// delivery is claimed), but whatever is delivered is still delivered once, in order, tagged
	r.Parallel(t, "v1-priority-without-share", r.Cfg.pick(400, 6000), func(t *testing.T, idx int, rng *rand.Rand) {
		c := r.prioCase(t, genPrioScenario(rng, prioGen{Vers: []string{"v1", "v1", "v1s"}, Dividers: allDividers, Mode: "general", Starve: true}))
		if c.res != nil && c.sc.Starved {
			r.Count("v1_without_share.scenarios", 1)
			if c.res.PriosWith2 >= 2 {
				r.NonTrivial(jsonString(c.sc))
			}
		}
	})
	// real clock: H concurrent handlers; exactly-once, tags, and per-priority order decided on
	// receive intervals (no search needed with unique items)
	r.Parallel(t, "real", r.Cfg.pick(250, 6000), func(t *testing.T, idx int, rng *rand.Rand) {
		sc := genPrioRealScenario(rng, allVers, false)
		res := r.prioRealCase(t, sc)
		if res.Rejected == "" && res.Stuck == "" && !res.Stopped && len(sc.Inputs) >= 2 && res.Received >= 4 {
			r.NonTrivial(jsonString(sc))
		}
	})
}

func TestC05(t *testing.T) {
	r := newRun(t, "C05", "exploration")
	defer r.Finish(t)
	r.Rule = "saturation scenarios for {v2, v1, simple variants}: every input buffered and prefilled before New with enough items that it never runs empty; shares are obtained by calling the configured divider itself on (sorted priorities, H); the oracle is armed only while every input still holds >= H + cap(output) + 1 undelivered items; after every receive held_p <= share_p; at every checkpoint (release groups issued: one at a time / whole priority / all but one / random groups / two groups in a row, then drained) full occupation is awaited (bounded, fake clock) and then held_p = share_p for every p. non-trivial = >= 2 priorities and >= 5 release groups inside the window with >= 3 checkpoints passed; distinct by scenario fingerprint"
	r.Rule += " | also: small buffers (capacity 1..3) kept full by parked writers; v1 scripts with AddInput of the same channel and RemoveInput of a saturated input (the refill under the new shares is judged); real-clock block: one-shot senders verified parked before creation, per-priority in-flight <= share after every receive"
	r.Assumptions = []string{prioAssume}
	r.Floor = 20
	if replayPrio(t, r) {
		return
	}
	r.Parallel(t, "saturate", r.Cfg.pick(3500, 40000), func(t *testing.T, idx int, rng *rand.Rand) {
		c := r.prioCase(t, genPrioScenario(rng, prioGen{Vers: allVers, Dividers: allDividers, Mode: "saturate", MaxH: 48}))
		if c.res == nil {
			return
		}
		r.Count("saturation_checkpoints_passed", int64(c.res.SatChecks))
		r.Count("release_groups_inside_window", int64(c.res.SatGroups))
		if len(c.sc.Inputs) > 0 && c.sc.Inputs[0].Writers > 0 {
			r.Count("small_buffers_kept_full_by_parked_writers.scenarios", 1)
			r.Count("small_buffers_kept_full_by_parked_writers.checkpoints_passed", int64(c.res.SatChecks))
		}
		if c.res.ReAdds > 0 {
			r.Count("scenarios_with_AddInput_of_the_same_channel", 1)
		}
		if c.res.SatRemovals > 0 {
			r.Count("scenarios_with_RemoveInput_under_saturation", 1)
		}
		if len(c.sc.Inputs) >= 2 && c.res.SatGroups >= 5 && c.res.SatChecks >= 3 {
			r.NonTrivial(jsonString(c.sc))
			if r.WantSample() {
				r.Sample(prioSample(c))
			}
		}
	})
	// real clock: inputs with a small buffer kept non-empty by one-shot senders that are all
	// parked before the discipline is created; per-priority in-flight <= share after every receive
	r.Parallel(t, "real-small-buffers", r.Cfg.pick(150, 3000), func(t *testing.T, idx int, rng *rand.Rand) {
		sc := genSatRealScenario(rng)
		res := runPrioSatReal(sc)
		if res.Stuck != "" {
			r.Count("real.stalls_seen_once_and_replayed", 1)
			res = runPrioSatReal(sc)
		}
		r.Eval(1)
		if res.Rejected != "" {
			r.Count("rejected_by_constructor", 1)
			return
		}
		for _, f := range res.Findings {
			r.Violation(f.Prop, f.Key+":"+sc.Ver, f.Msg, map[string]any{"scenario": sc})
		}
		if res.Stuck != "" {
			r.Inconclusive("real-clock saturation scenario did not finish: " + res.Stuck + " " + jsonString(sc))
			return
		}
		r.Count("real.scenarios."+sc.Ver, 1)
		r.Count("real.senders_verified_parked_before_creation", int64(res.Parked))
		r.Count("real.receives_judged_while_saturated", res.ArmedRecv)
		r.Max("real.max_held", res.MaxHeld)
		if len(sc.Inputs) >= 2 && res.ArmedRecv >= int64(3*sc.H) {
			r.NonTrivial("real:" + jsonString(sc))
		}
	})
}

func TestC06(t *testing.T) {
	r := newRun(t, "C06", "exploration")
	defer r.Finish(t)
	r.Rule = "bounded progress on the fake clock (L = 50us virtual, about 1000 scheduler rounds), Fair and Rate only, all H the constructor accepts incl. the exact minimum and skewed sets (e.g. {1000,1}), unbuffered inputs, inputs closing at different times, delayed/batched releases: (a) probe: nothing in flight, every release consumed, some input holds an undelivered item => an item is received within L with no release; (b) probe: a priority that alone has >= H items already buffered occupies all H handlers within L with no release; (b') lone-burst probe: from the empty state one priority alone gets data in several bursts (buffered or unbuffered) with no release - while fewer than H of its items are in flight and one is waiting, the next must arrive within L, unless the documented wait applies (it is above its share and the divider cannot give every other priority one of the vacant handlers); (c) epilogue: handlers release everything at once => every written item is received (each within L of the previous) and the discipline terminates. A busy loop is caught by the real-time watchdog (stack samples). non-trivial = scenario with >= 1 probe evaluated and normal termination; distinct by scenario fingerprint"
	r.Rule += " | also: the v1 add / replace / remove block; a normal termination with undelivered written items is a finite refutation"
	r.Assumptions = []string{prioAssume, "unbounded 'eventually' is restated as progress within L virtual nanoseconds"}
	r.Floor = 20
	if replayPrio(t, r) {
		return
	}
	r.Parallel(t, "progress", r.Cfg.pick(4000, 40000), func(t *testing.T, idx int, rng *rand.Rand) {
		c := r.prioCase(t, genPrioScenario(rng, prioGen{Vers: allVers, Dividers: []string{"fair", "rate", "rate"}, Mode: "progress", MaxH: 96}))
		if c.res == nil {
			return
		}
		r.Count("progress_probes(nothing in flight)", int64(c.res.Probes))
		r.Count("alone_probes(single priority gets all handlers)", int64(c.res.AloneProbes))
		r.Count("lone_burst_probes", int64(c.res.LoneBursts))
		r.Count("lone_burst_deliveries_without_release", int64(c.res.LoneSteps))
		r.Count("lone_burst_documented_waits_seen", int64(c.res.LoneLegitWaits))
		if c.res.Probes+c.res.AloneProbes+c.res.LoneBursts >= 1 && c.res.Terminated && c.res.TermWay == "drained" {
			r.NonTrivial(jsonString(c.sc))
			if r.WantSample() {
				r.Sample(prioSample(c))
			}
		}
	})
	// v1: progress must survive AddInput / replacement (also of a closed and drained channel) /
	// RemoveInput: with every item released at once, everything written to registered channels
	// keeps being delivered (the epilogue's bounded-progress oracle)
	r.Parallel(t, "v1-add-remove", r.Cfg.pick(1000, 12000), func(t *testing.T, idx int, rng *rand.Rand) {
		c := r.prioCase(t, genPrioScenario(rng, prioGen{Vers: []string{"v1"}, Dividers: []string{"fair", "rate", "rate"}, Mode: "addrm"}))
		if c.res != nil && c.res.Terminated && c.res.TermWay == "drained" && c.res.CtlOps >= 1 {
			r.Count("v1_add_remove.scenarios_delivered_to_the_end", 1)
			r.NonTrivial(jsonString(c.sc))
		}
	})
}

func TestC07(t *testing.T) {
	r := newRun(t, "C07", "exploration")
	defer r.Finish(t)
	r.Rule = "termination scenarios for all four variants: inputs closed in every order, interleaved with drains; then either one release is withheld, or one idle input is kept open, for 0.2..5us virtual while the channels are observed at quiescent points (closure there = early termination), or the last items stay unread; then everything is released / closed and closure of Err() (and Output() for v2, return of GracefulStop for v1) is awaited within L = 50us virtual; never-early conditions are evaluated at the instant a closure is observed: every input closed by the harness, every written item received, every received item release-started, (simple) every Handle call returned; every value read from Err() must be nil; a v1 block repeats this across AddInput / replacement (also of closed and drained channels) / RemoveInput; a block for the simple disciplines ends them by Stop / cancel / divider error while Handle calls are running (Handle takes 0..300ns virtual to return after its context is cancelled) and requires entered = returned at the instant Err() is seen closed. non-trivial = normal termination observed after >= 1 hold observation, or (blocks 2, 3) a terminated scenario with control calls / items in flight; distinct by scenario fingerprint"
	r.Rule += " | also: v1 without share (never-early oracles only); an input that is a nil channel; idle periods much longer than the progress window; AddInput followed at once by GracefulStop() with a divider that takes its time"
	r.Assumptions = []string{prioAssume}
	r.Floor = 20
	if replayPrio(t, r) {
		return
	}
	r.Parallel(t, "terminate", r.Cfg.pick(3500, 50000), func(t *testing.T, idx int, rng *rand.Rand) {
		c := r.prioCase(t, genPrioScenario(rng, prioGen{Vers: allVers, Dividers: allDividers, Mode: "terminate"}))
		if c.res == nil {
			return
		}
		r.Count("hold_observations(still open)", int64(c.res.HoldChecks))
		if c.res.NeverEndedHeld {
			r.Count("scenarios_with_a_nil_input_channel_that_stayed_open", 1)
		}
		if c.res.Terminated && c.res.TermWay == "drained" && c.res.HoldChecks >= 1 {
			r.NonTrivial(jsonString(c.sc))
			if r.WantSample() {
				r.Sample(prioSample(c))
			}
		}
	})
	// v1 configurations in which some priority gets no share: GracefulStop must still wait for
	// the input of such a priority (only "never early" is judged there, see C01)
	r.Parallel(t, "v1-priority-without-share", r.Cfg.pick(600, 8000), func(t *testing.T, idx int, rng *rand.Rand) {
		c := r.prioCase(t, genPrioScenario(rng, prioGen{Vers: []string{"v1", "v1", "v1s"}, Dividers: []string{"rate", "rate", "fair", "hashw", "toprem"}, Mode: "terminate", Starve: true}))
		if c.res != nil && c.sc.Starved {
			r.Count("v1_without_share.scenarios", 1)
			r.Count("v1_without_share.hold_observations(still open)", int64(c.res.HoldChecks))
			if c.res.HoldChecks >= 1 {
				r.NonTrivial(jsonString(c.sc))
			}
		}
	})
	// v1: termination after AddInput / replacement (also of closed and drained channels) / RemoveInput
	r.Parallel(t, "v1-add-remove", r.Cfg.pick(500, 15000), func(t *testing.T, idx int, rng *rand.Rand) {
		c := r.prioCase(t, genPrioScenario(rng, prioGen{Vers: []string{"v1"}, Dividers: allDividers, Mode: "addrm"}))
		if c.res != nil && c.res.Terminated && c.res.TermWay == "drained" && c.res.CtlOps >= 1 {
			r.NonTrivial(jsonString(c.sc))
		}
	})
	// simple disciplines ended by Stop / cancel / divider error: Err() may close only after every
	// Handle call has returned (Handle needs 0..300ns virtual to return once its context is cancelled)
	r.Parallel(t, "simple-rough-termination", r.Cfg.pick(500, 15000), func(t *testing.T, idx int, rng *rand.Rand) {
		sc := genPrioScenario(rng, prioGen{Vers: []string{"v1s", "v1s", "v2s"}, Dividers: allDividers, Mode: "stop", MaxH: 32})
		if sc.Ver == "v2s" || rng.IntN(4) == 0 {
			kinds := []string{"plus1", "double", "minus1", "outside"}
			sc.Fault = &DivFault{At: 1 + rng.IntN(20), Kind: kinds[rng.IntN(len(kinds))]}
		}
		c := r.prioCase(t, sc)
		if c.res != nil && c.res.Terminated && c.res.MaxHeld > 0 {
			r.NonTrivial(jsonString(c.sc))
		}
	})
}
