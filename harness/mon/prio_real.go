package mon

// Real-clock stress of the priority disciplines: H real handler goroutines, one producer per
// input, control calls from other goroutines, random real delays. Only load-robust oracles
// decide here (capacity counter, exactly-once / tag / interval order, closure never early);
// the race detector watches everything in race builds.

import (
	"context"
	"fmt"
	"math/rand/v2"
	"sort"
	"sync"
	"sync/atomic"
	"time"

	v1prio "github.com/akramarenkov/cqos/priority"
	v2prio "github.com/akramarenkov/cqos/v2/priority"
	"github.com/akramarenkov/cqos/v2/priority/divider"
	"github.com/akramarenkov/cqos/v2/priority/simple"
)

type PRealInput struct {
	P     uint `json:"p"`
	Cap   int  `json:"cap"`
	N     int  `json:"n"`
	GapUs int  `json:"max_gap_us"`
}

type PRealCtl struct {
	AfterUs int    `json:"after_us"`
	Op      string `json:"op"` // add | repl | rm | stop | cancel | graceful
	P       uint   `json:"p,omitempty"`
	Cap     int    `json:"cap,omitempty"`
	N       int    `json:"n,omitempty"`
}

type PrioRealScenario struct {
	Ver     string       `json:"version"`
	Divider string       `json:"divider"`
	DivSeed uint64       `json:"divider_seed,omitempty"`
	H       uint         `json:"handlers"`
	Inputs  []PRealInput `json:"inputs"`
	HoldUs  int          `json:"max_hold_us"`
	OutCap  int          `json:"v1_output_capacity,omitempty"`
	FbCap   int          `json:"v1_feedback_capacity,omitempty"`
	Ctl     []PRealCtl   `json:"control,omitempty"`
	Seed    uint64       `json:"seed"`
}

type prealRec struct {
	it        PItem
	tag       uint
	call, ret int64
}

type prioRealResult struct {
	Rejected  string
	Findings  []pFinding
	Received  int
	Written   int
	MaxHeld   int64
	Stuck     string
	Stopped   bool
	CtlDone   int64
	Handlers  int
	ErrValues []string
}

func runPrioReal(sc PrioRealScenario) *prioRealResult {
	res := &prioRealResult{}
	var mu sync.Mutex
	fail := func(prop, key, format string, a ...any) {
		mu.Lock()
		if len(res.Findings) < 8 {
			res.Findings = append(res.Findings, pFinding{prop, key, fmt.Sprintf(format, a...)})
		}
		mu.Unlock()
	}
	base := time.Now()
	now := func() int64 { return int64(time.Since(base)) }
	rng := rand.New(rand.NewPCG(sc.Seed, sc.Seed^77))
	var rngMu sync.Mutex
	rnd := func(n int) int {
		if n <= 0 {
			return 0
		}
		rngMu.Lock()
		defer rngMu.Unlock()
		return rng.IntN(n)
	}

	div := customDivider(sc.Divider, sc.DivSeed)
	type chanInfo struct {
		p       uint
		ch      chan PItem
		n       int
		written atomic.Int64
		removed atomic.Bool
		takenAt atomic.Int64  // items the discipline had taken when the removal / replacement returned
		quit    chan struct{} // closed when the channel was removed / replaced: its producer stops
	}
	var chans []*chanInfo
	var chansMu sync.Mutex
	inputs := map[uint]<-chan PItem{}
	for _, in := range sc.Inputs {
		ci := &chanInfo{p: in.P, ch: make(chan PItem, in.Cap), n: in.N, quit: make(chan struct{})}
		chans = append(chans, ci)
		inputs[in.P] = ci.ch
	}

	var held, maxHeld atomic.Int64
	var recs []prealRec
	var recMu sync.Mutex
	stopIssued := atomic.Bool{}
	onItem := func(it PItem, tag uint, call, ret int64, checkTag bool) {
		h := held.Add(1)
		for {
			m := maxHeld.Load()
			if h <= m || maxHeld.CompareAndSwap(m, h) {
				break
			}
		}
		if h > int64(sc.H) {
			fail("C01", "capacity-real", "%d items handed out and not released at once, HandlersQuantity is %d (real-clock run, %s)", h, sc.H, sc.Ver)
		}
		if checkTag && tag != it.P {
			fail("C02", "tag-real", "item %+v delivered tagged %d", it, tag)
		}
		recMu.Lock()
		recs = append(recs, prealRec{it: it, tag: tag, call: call, ret: ret})
		recMu.Unlock()
		if d := rnd(sc.HoldUs + 1); d > 0 {
			time.Sleep(time.Duration(d) * time.Microsecond)
		}
		held.Add(-1)
	}

	done := make(chan struct{}) // closed when the discipline has terminated
	var hwg, pwg, cwg sync.WaitGroup
	var errCh <-chan error
	var stop, graceful, cancel func()
	var addInput func(ch <-chan PItem, p uint)
	var removeInput func(p uint)
	var outLen func() int // v1: length of the harness-owned output
	ctx, cancelCtx := context.WithCancel(context.Background())
	defer cancelCtx()

	switch sc.Ver {
	case "v2":
		d, err := v2prio.New(v2prio.Opts[PItem]{Divider: divider.Divider(div), HandlersQuantity: sc.H, Inputs: inputs})
		if err != nil {
			res.Rejected = err.Error()
			return res
		}
		errCh = d.Err()
		for i := 0; i < int(sc.H); i++ {
			hwg.Add(1)
			go func() {
				defer hwg.Done()
				for {
					call := now()
					x, ok := <-d.Output()
					if !ok {
						return
					}
					onItem(x.Item, x.Priority, call, now(), true)
					d.Release(x.Priority)
				}
			}()
		}
	case "v1":
		out := make(chan v1prio.Prioritized[PItem], sc.OutCap)
		fb := make(chan uint, sc.FbCap)
		d, err := v1prio.New(v1prio.Opts[PItem]{Ctx: ctx, Divider: asV1(div), Feedback: fb, HandlersQuantity: sc.H, Inputs: inputs, Output: out})
		if err != nil {
			res.Rejected = err.Error()
			return res
		}
		errCh = d.Err()
		stop, graceful, cancel = d.Stop, d.GracefulStop, cancelCtx
		addInput, removeInput = d.AddInput, d.RemoveInput
		outLen = func() int { return len(out) }
		for i := 0; i < int(sc.H); i++ {
			hwg.Add(1)
			go func() {
				defer hwg.Done()
				for {
					call := now()
					select {
					case x := <-out:
						onItem(x.Item, x.Priority, call, now(), true)
						select {
						case fb <- x.Priority:
						case <-done:
							return
						}
					case <-done:
						return
					}
				}
			}()
		}
	case "v2s":
		handle := func(it PItem) {
			t := now()
			onItem(it, it.P, t, t, false)
		}
		d, err := simple.New(simple.Opts[PItem]{Divider: divider.Divider(div), Handle: handle, HandlersQuantity: sc.H, Inputs: inputs})
		if err != nil {
			res.Rejected = err.Error()
			return res
		}
		errCh = d.Err()
	case "v1s":
		handle := func(hctx context.Context, it PItem) {
			t := now()
			onItem(it, it.P, t, t, false)
		}
		d, err := v1prio.NewSimple(v1prio.SimpleOpts[PItem]{Ctx: ctx, Divider: asV1(div), Handle: handle, HandlersQuantity: sc.H, Inputs: inputs})
		if err != nil {
			res.Rejected = err.Error()
			return res
		}
		errCh = d.Err()
		stop, graceful, cancel = d.Stop, d.GracefulStop, cancelCtx
	}
	res.Handlers = int(sc.H)

	abort := make(chan struct{})
	produce := func(ci *chanInfo, id int, gapUs int) {
		defer pwg.Done()
		for s := 0; s < ci.n; s++ {
			if g := rnd(gapUs + 1); g > 0 {
				time.Sleep(time.Duration(g) * time.Microsecond)
			}
			select {
			case ci.ch <- PItem{P: ci.p, Ch: id, Seq: s}:
				ci.written.Add(1)
			case <-abort:
				return
			case <-ci.quit:
				return
			}
		}
		close(ci.ch)
	}
	for i, ci := range chans {
		pwg.Add(1)
		go produce(ci, i, sc.Inputs[i].GapUs)
	}

	// control calls from their own goroutine (one after another: the model of what is
	// registered must stay unambiguous)
	cwg.Add(1)
	go func() {
		defer cwg.Done()
		current := map[uint]*chanInfo{}
		chansMu.Lock()
		for _, ci := range chans {
			current[ci.p] = ci
		}
		chansMu.Unlock()
		for _, c := range sc.Ctl {
			time.Sleep(time.Duration(c.AfterUs) * time.Microsecond)
			switch c.Op {
			case "add", "repl":
				if addInput == nil || stopIssued.Load() {
					continue
				}
				ci := &chanInfo{p: c.P, ch: make(chan PItem, c.Cap), n: c.N, quit: make(chan struct{})}
				chansMu.Lock()
				id := len(chans)
				chans = append(chans, ci)
				chansMu.Unlock()
				old := current[c.P]
				addInput(ci.ch, c.P)
				if old != nil {
					// len first, counter second: the producer may still be filling the buffer, and
					// "taken" must not be under-estimated (written only grows; +1 for its lag below)
					n := int64(len(old.ch))
					old.takenAt.Store(old.written.Load() - n)
					old.removed.Store(true)
					close(old.quit)
				}
				current[c.P] = ci
				pwg.Add(1)
				go produce(ci, id, 50)
				atomic.AddInt64(&res.CtlDone, 1)
			case "rm":
				if removeInput == nil || stopIssued.Load() || current[c.P] == nil {
					continue
				}
				removeInput(c.P)
				n := int64(len(current[c.P].ch))
				current[c.P].takenAt.Store(current[c.P].written.Load() - n)
				current[c.P].removed.Store(true)
				close(current[c.P].quit)
				delete(current, c.P)
				atomic.AddInt64(&res.CtlDone, 1)
			case "graceful":
				if graceful != nil {
					go graceful()
				}
			case "stop":
				if stop != nil {
					stopIssued.Store(true)
					stop()
				}
			case "cancel":
				if cancel != nil {
					stopIssued.Store(true)
					cancel()
				}
			}
		}
	}()

	// v1: graceful termination must be requested once the producers are done (unless a rough stop comes)
	if graceful != nil {
		go func() {
			pw := make(chan struct{})
			go func() { cwg.Wait(); pwg.Wait(); close(pw) }()
			select {
			case <-pw:
				if !stopIssued.Load() {
					graceful()
				}
			case <-done:
			}
		}()
	}

	// wait for termination: Err() closed
	timeout := time.After(60 * time.Second)
wait:
	for {
		select {
		case e, ok := <-errCh:
			if !ok {
				break wait
			}
			s := "<nil>"
			if e != nil {
				s = e.Error()
				fail("C07", "error-real", "Err() yielded %q in a run with a sum-preserving divider", s)
			}
			res.ErrValues = append(res.ErrValues, s)
		case <-timeout:
			res.Stuck = "the discipline did not terminate within 60s of real time"
			break wait
		}
	}
	// closure must not be early: held is incremented after a receive and decremented BEFORE the
	// release is issued, so a non-zero value at this point is an item whose release had not
	// even started when the discipline closed its channels
	if h := held.Load(); h > 0 && !stopIssued.Load() {
		fail("C07", "early-termination-real", "Err() was closed while %d received item(s) had not yet been released (real-clock run, %s)", h, sc.Ver)
	}
	close(done)
	close(abort)
	res.Stopped = stopIssued.Load()
	if res.Stuck != "" {
		return res
	}
	// closure must not be early (normal termination): nothing held, everything written was received
	hw := make(chan struct{})
	go func() { cwg.Wait(); hwg.Wait(); pwg.Wait(); close(hw) }()
	select {
	case <-hw:
	case <-time.After(20 * time.Second):
		res.Stuck = "handler / producer goroutines of the harness did not end after termination"
		return res
	}
	// C16 (load-robust part): the discipline has terminated and every handler of the harness
	// has left, so nobody reads or writes the harness-owned output any more - it must not grow
	if outLen != nil && stopIssued.Load() {
		n0 := outLen()
		time.Sleep(2 * time.Millisecond)
		if n1 := outLen(); n1 > n0 {
			fail("C16", "output-after-stop-real", "the output held %d items after the stop had completed and every handler had left, and %d items 2ms later: written after completion", n0, n1)
		}
	}
	recMu.Lock()
	defer recMu.Unlock()
	res.Received = len(recs)
	res.MaxHeld = maxHeld.Load()
	byCh := map[int][]prealRec{}
	for _, r := range recs {
		byCh[r.it.Ch] = append(byCh[r.it.Ch], r)
	}
	chansMu.Lock()
	defer chansMu.Unlock()
	for id, ci := range chans {
		rs := byCh[id]
		sort.Slice(rs, func(i, j int) bool { return rs[i].it.Seq < rs[j].it.Seq })
		w := int(ci.written.Load())
		res.Written += w
		for i := 1; i < len(rs); i++ {
			if rs[i].it.Seq == rs[i-1].it.Seq {
				fail("C02", "duplicate-real", "priority %d channel #%d: item seq %d delivered twice", ci.p, id, rs[i].it.Seq)
			}
		}
		for _, r := range rs {
			if r.it.Seq >= w || r.it.P != ci.p {
				fail("C02", "not-written-real", "priority %d channel #%d: delivered item %+v was never written (%d written)", ci.p, id, r.it, w)
			}
		}
		if ci.removed.Load() && int64(len(rs)) > ci.takenAt.Load()+1 {
			// +1: a producer send may have completed before its counter was updated
			fail("C17", "read-after-remove-real", "priority %d channel #%d: %d items were delivered although only %d (+1 in progress) had been taken out of it when RemoveInput / the replacing AddInput returned", ci.p, id, len(rs), ci.takenAt.Load())
		}
		if !res.Stopped && !ci.removed.Load() && len(rs) != w {
			fail("C02", "lost-real", "priority %d channel #%d: %d items written before the close but %d delivered at normal termination", ci.p, id, w, len(rs))
		}
		// interval order: a written before b (same producer) => receive(b) must not have
		// returned before receive(a) was called
		if sc.Ver == "v2" || sc.Ver == "v1" {
			sufMin := int64(1) << 62
			for i := len(rs) - 1; i >= 0; i-- {
				if sufMin < rs[i].call {
					fail("C02", "order-real", "priority %d channel #%d: a later item was received (returned at %dns) before the receive of seq %d was even called (%dns)", ci.p, id, sufMin, rs[i].it.Seq, rs[i].call)
					break
				}
				if rs[i].ret < sufMin {
					sufMin = rs[i].ret
				}
			}
		}
	}
	return res
}

func genPrioRealScenario(rng *rand.Rand, vers []string, ctl bool) PrioRealScenario {
	// with control calls every subset of the registrable priorities must be non-fatal for H
	mode := map[bool]string{true: "addrm", false: "general"}[ctl && len(vers) == 1 && vers[0] == "v1"]
	g := genPrioScenario(rng, prioGen{Vers: vers, Dividers: allDividers, Mode: mode, MaxH: 32})
	for g.H > 64 || len(g.Inputs) == 0 {
		g = genPrioScenario(rng, prioGen{Vers: vers, Dividers: allDividers, Mode: mode, MaxH: 32})
	}
	sc := PrioRealScenario{Ver: g.Ver, Divider: g.Divider, DivSeed: g.DivSeed, H: g.H, Seed: rng.Uint64()}
	sc.HoldUs = []int{0, 20, 200, 1500}[rng.IntN(4)]
	H := int(sc.H)
	sc.OutCap = []int{0, 1, H, 2 * H}[rng.IntN(4)]
	sc.FbCap = []int{0, 1, H}[rng.IntN(3)]
	for _, in := range g.Inputs {
		sc.Inputs = append(sc.Inputs, PRealInput{P: in.P, Cap: in.Cap, N: rng.IntN(6*H + 20), GapUs: []int{0, 0, 30, 300}[rng.IntN(4)]})
	}
	if ctl && sc.Ver == "v1" {
		present := map[uint]bool{}
		for _, in := range sc.Inputs {
			present[in.P] = true
		}
		extra := []uint{11, 12, 13}
		for i := 0; i < 1+rng.IntN(4); i++ {
			c := PRealCtl{AfterUs: rng.IntN(1500)}
			switch rng.IntN(3) {
			case 0:
				c.Op, c.P, c.Cap, c.N = "add", extra[rng.IntN(3)], rng.IntN(H+2), rng.IntN(3*H+5)
				if present[c.P] {
					c.Op = "repl"
				}
				present[c.P] = true
			case 1:
				var ps []uint
				for p, ok := range present {
					if ok {
						ps = append(ps, p)
					}
				}
				sort.Slice(ps, func(i, j int) bool { return ps[i] < ps[j] })
				if len(ps) < 2 {
					continue
				}
				c.Op, c.P = "rm", ps[rng.IntN(len(ps))]
				present[c.P] = false
			default:
				var ps []uint
				for p, ok := range present {
					if ok {
						ps = append(ps, p)
					}
				}
				sort.Slice(ps, func(i, j int) bool { return ps[i] < ps[j] })
				c.Op, c.P, c.Cap, c.N = "repl", ps[rng.IntN(len(ps))], rng.IntN(H+2), rng.IntN(3*H+5)
			}
			sc.Ctl = append(sc.Ctl, c)
		}
	}
	if (sc.Ver == "v1" || sc.Ver == "v1s") && rng.IntN(3) == 0 {
		sc.Ctl = append(sc.Ctl, PRealCtl{AfterUs: rng.IntN(3000), Op: []string{"stop", "cancel", "graceful"}[rng.IntN(3)]})
	}
	return sc
}
