package mon

// Limit engine: scenario, runner (fake or real clock) and the offline oracles of C04 and C12.

import (
	"fmt"
	"math/rand/v2"
	"slices"
	"sync"
	"time"

	"github.com/akramarenkov/cqos/v2/limit"
)

type LimitStep struct {
	Gap int64 `json:"gap_ns"`
	N   int   `json:"n"` // elements written back to back after the gap
}

type LimitScenario struct {
	Q             uint64      `json:"quantity"`
	I             int64       `json:"interval_ns"`
	InCap         int         `json:"input_capacity"`
	Prefill       int         `json:"prefill"`        // elements put into the (buffered) input before New
	PrefillClosed bool        `json:"prefill_closed"` // and the input closed before New
	Steps         []LimitStep `json:"steps"`
	Consumer      string      `json:"consumer"` // eager | slow
	ConsDelay     []int64     `json:"consumer_delays_ns,omitempty"`
	Real          bool        `json:"real_time,omitempty"`
}

func (sc LimitScenario) total() int {
	n := sc.Prefill
	for _, s := range sc.Steps {
		n += s.N
	}
	return n
}

type LimitTrace struct {
	Rejected    string
	WS, WC      []int64 // per written element (prefilled elements: 0)
	Recv        []int64
	Call        []int64 // per received element: when the consumer started to wait for it
	OutCap      int     // cap(Output())
	Data        []int
	Closed      bool
	ClosedAt    int64
	InputClosed int64 // stamp taken before close(input)
	StuckMsg    string
}

func runLimit(sc LimitScenario) *LimitTrace {
	tr := &LimitTrace{}
	total := sc.total()
	in := make(chan int, sc.InCap)
	next := 0
	for i := 0; i < sc.Prefill; i++ {
		in <- next
		next++
		tr.WS = append(tr.WS, 0)
		tr.WC = append(tr.WC, 0)
	}
	if sc.PrefillClosed {
		close(in)
	}
	base := time.Now()
	now := func() int64 { return int64(time.Since(base)) }
	d, err := limit.New(limit.Opts[int]{Input: in, Limit: limit.Rate{Interval: time.Duration(sc.I), Quantity: sc.Q}})
	if err != nil {
		tr.Rejected = err.Error()
		return tr
	}
	tr.OutCap = cap(d.Output())
	var span int64
	for _, s := range sc.Steps {
		span += s.Gap
	}
	for _, dl := range sc.ConsDelay {
		span += dl
	}
	maxWait := time.Duration(span + (int64(uint64(total)/sc.Q)+4)*sc.I + int64(time.Hour))
	if sc.Real {
		maxWait = 30 * time.Second
	}
	var wg sync.WaitGroup
	if !sc.PrefillClosed {
		wg.Add(1)
		go func() {
			defer wg.Done()
			for _, s := range sc.Steps {
				if s.Gap > 0 {
					time.Sleep(time.Duration(s.Gap))
				}
				for k := 0; k < s.N; k++ {
					ws := now()
					in <- next
					next++
					tr.WS = append(tr.WS, ws)
					tr.WC = append(tr.WC, now())
				}
			}
			tr.InputClosed = now()
			close(in)
		}()
	}
	timer := time.NewTimer(maxWait)
	defer timer.Stop()
	k := 0
	for {
		if sc.Consumer == "slow" && k < len(sc.ConsDelay) && sc.ConsDelay[k] > 0 {
			time.Sleep(time.Duration(sc.ConsDelay[k]))
		}
		timer.Reset(maxWait)
		var v int
		var ok bool
		callAt := now()
		select {
		case v, ok = <-d.Output():
		case <-timer.C:
			tr.StuckMsg = fmt.Sprintf("no element and no closure within %s after %d elements", maxWait, len(tr.Recv))
			return tr
		}
		if !ok {
			tr.Closed = true
			tr.ClosedAt = now()
			break
		}
		tr.Recv = append(tr.Recv, now())
		tr.Call = append(tr.Call, callAt)
		tr.Data = append(tr.Data, v)
		k++
	}
	wg.Wait()
	return tr
}

type limitFinding struct{ Prop, Key, Msg string }

type limitStats struct {
	Batches     int
	Stalls      int   // gaps longer than the interval between consecutive writes
	MaxInWindow int64 // max over windows shorter than I of elements (fake clock, eager)
	MinSlack    int64 // min over n of Q*(floor(t/I)+1) - n
}

func judgeLimit(sc LimitScenario, tr *LimitTrace, inBubble bool) (fs []limitFinding, st limitStats) {
	add := func(prop, key, format string, a ...any) {
		fs = append(fs, limitFinding{prop, key, fmt.Sprintf(format, a...)})
	}
	st.MinSlack = 1 << 62
	// a Quantity beyond any element count ("unlimited"): the rate bounds cannot be exceeded and
	// the discipline must simply pass everything without a pause
	hugeQ := sc.Q > 1<<40
	Q := int64(sc.Q)
	if hugeQ {
		Q = 1 << 40
	}
	I := sc.I
	total := sc.total()
	if tr.StuckMsg != "" {
		add("C12", "stuck", "limit discipline did not deliver / close: %s", tr.StuckMsg)
		return
	}
	// C04 cumulative bound (sound on both clocks, any consumer)
	for n, t := range tr.Recv {
		allowed := Q * (t/I + 1)
		if s := allowed - int64(n+1); s < st.MinSlack {
			st.MinSlack = s
		}
		if int64(n+1) > allowed {
			add("C04", "cumulative", "element #%d received at %dns after creation: more than Quantity*(floor(t/Interval)+1) = %d (rate %d per %dns)", n+1, t, allowed, sc.Q, I)
			break
		}
	}
	eager := sc.Consumer == "eager"
	// C04 window bound: send instants = receive instants only on the fake clock with a ready consumer
	if inBubble && eager {
		lo := 0
		for j := range tr.Recv {
			// the tightest violation for a given j is with the smallest i whose window class is minimal;
			// check all i in a sliding fashion over windows shorter than 3 intervals, and the general
			// inequality for every i (n is at most a few thousand)
			for lo < j && tr.Recv[j]-tr.Recv[lo] >= I {
				lo++
			}
			if c := int64(j - lo + 1); c > st.MaxInWindow {
				st.MaxInWindow = c
			}
		}
		n := len(tr.Recv)
		step := 1
		if n > 3000 {
			step = n / 3000
		}
	outer:
		for i := 0; i < n; i += step {
			for j := i + 1; j < n; j++ {
				w := tr.Recv[j] - tr.Recv[i]
				if int64(j-i+1) > Q*(w/I+2) {
					add("C04", "window", "elements #%d..#%d (%d elements) left the output within a window of %dns: more than Quantity*(floor(W/Interval)+2) = %d (rate %d per %dns)", i+1, j+1, j-i+1, w, Q*(w/I+2), sc.Q, I)
					break outer
				}
			}
		}
	}
	st.Batches = int((int64(len(tr.Recv)) + Q - 1) / Q)
	for i := 1; i < len(tr.WS); i++ {
		if tr.WS[i]-tr.WS[i-1] > I {
			st.Stalls++
		}
	}
	// C12 pass-through, closure
	want := make([]int, total)
	for i := range want {
		want[i] = i
	}
	if !tr.Closed {
		add("C12", "not-closed", "output did not close")
		return
	}
	if !slices.Equal(tr.Data, want) {
		i := 0
		for i < len(tr.Data) && i < total && tr.Data[i] == i {
			i++
		}
		add("C12", "sequence", "output sequence differs from the input sequence at position %d (got %d elements, written %d): %v", i, len(tr.Data), total, tr.Data[max(0, i-2):min(len(tr.Data), i+4)])
		return
	}
	if !sc.PrefillClosed && tr.ClosedAt < tr.InputClosed {
		add("C12", "early-close", "output closed at %dns, before the input was closed (%dns)", tr.ClosedAt, tr.InputClosed)
	}
	// (5) no extra throttling, whatever the consumer does (fake clock): the discipline works in
	// portions of Quantity elements; a portion starts one Interval after the previous one started
	// or when the previous one was through, whichever is later; inside a portion an element is
	// forwarded as soon as it has arrived, its predecessor is through and the output has room
	// (cap(Output()) elements may wait there). m[j] is the latest moment at which element j can
	// have been put into the output under these rules, computed from the observed arrivals and
	// receives; the consumer gets it then or when it asks for it, whichever is later.
	if inBubble && !sc.PrefillClosed && len(tr.Call) == len(tr.Recv) {
		slack := I / 100
		m := make([]int64, len(tr.Recv))
		portionStart := int64(0)
		for j := range tr.Recv {
			if j > 0 && int64(j)%Q == 0 {
				portionStart = max(portionStart+I, m[j-1])
			}
			v := portionStart
			if j >= sc.Prefill && j < len(tr.WS) && tr.WS[j] > v {
				v = tr.WS[j]
			}
			if j > 0 && m[j-1] > v {
				v = m[j-1]
			}
			if k := j - tr.OutCap; k >= 0 && tr.OutCap > 0 && tr.Recv[k] > v {
				v = tr.Recv[k]
			}
			m[j] = v
			bound := max(v, tr.Call[j])
			if tr.Recv[j] > bound+slack {
				add("C12", "throttled-below-rate-any-consumer", "element #%d (0-based %d): arrived at %dns, its portion could start at %dns, its predecessor was through at %dns, the output (capacity %d) had room, the consumer asked for it at %dns - it could be received at %dns but was received at %dns (rate %d per %dns)", j+1, j, wsOf(tr, sc, j), portionStart, prevM(m, j), tr.OutCap, tr.Call[j], bound, tr.Recv[j], sc.Q, I)
				break
			}
		}
	}
	// no extra throttling: fake clock, ready consumer
	if inBubble && eager {
		if int64(total) < Q && !sc.PrefillClosed {
			for i := sc.Prefill; i < total; i++ {
				if tr.Recv[i] != tr.WS[i] {
					add("C12", "pause-below-quantity", "only %d < Quantity %d elements in total, but element #%d written at %dns was received at %dns (a pause of %dns)", total, sc.Q, i+1, tr.WS[i], tr.Recv[i], tr.Recv[i]-tr.WS[i])
					break
				}
			}
		}
		// (3) an element is held back only by its own arrival, by order, or by the rate relative
		// to the element Quantity places before it: anything later means that an available
		// element was kept although fewer than Quantity had passed in the last Interval
		if !sc.PrefillClosed {
			slack := I / 100
			for j := sc.Prefill; j < total && j < len(tr.Recv); j++ {
				bound := tr.WS[j]
				if j > 0 && tr.Recv[j-1] > bound {
					bound = tr.Recv[j-1]
				}
				if jq := int64(j) - Q; jq >= 0 && tr.Recv[jq]+I > bound {
					bound = tr.Recv[jq] + I
				}
				if tr.Recv[j] > bound+slack {
					add("C12", "throttled-below-rate", "element #%d was written at %dns, its predecessor left at %dns and the element Quantity=%d places before it left %s, so it could leave at %dns, but it left at %dns: throttled below the configured rate (%d per %dns)", j+1, tr.WS[j], prevRecv(tr, j), sc.Q, qBefore(tr, int64(j)-Q), bound, tr.Recv[j], sc.Q, I)
					break
				}
			}
		}
		// (4) no extra pause before the closure: once everything was forwarded and the input is
		// closed the output closes at once, except after a complete last portion, where the
		// documented final delay of at most one Interval may still run
		{
			ref := tr.InputClosed
			if n := len(tr.Recv); n > 0 && tr.Recv[n-1] > ref {
				ref = tr.Recv[n-1]
			}
			allowed := I / 100
			if int64(total)%Q == 0 {
				allowed += I
			}
			if tr.ClosedAt > ref+allowed {
				add("C12", "late-close", "%d elements (Quantity %d): the last one left at %dns, the input was closed at %dns, but the output closed only at %dns - a pause although %s", total, sc.Q, prevRecv(tr, len(tr.Recv)), tr.InputClosed, tr.ClosedAt, map[bool]string{true: "the last portion was complete (one Interval would be allowed)", false: "the last portion was incomplete (no pause is due)"}[int64(total)%Q == 0])
			}
		}
		if sc.Prefill == total && total > 0 {
			// all N elements available up-front
			slack := I / 100
			for i := 0; i < total; i++ {
				bound := int64(i)/Q*I + slack
				if tr.Recv[i] > bound {
					add("C12", "slow-upfront", "all %d elements were available up-front; element #%d (0-based %d) received at %dns, later than floor(i/Quantity)*Interval + Interval/100 = %dns (rate %d per %dns)", total, i+1, i, tr.Recv[i], bound, sc.Q, I)
					break
				}
			}
			if sc.PrefillClosed {
				bound := (int64(total)+Q-1)/Q*I + slack
				if tr.ClosedAt > bound {
					add("C12", "slow-close", "all %d elements up-front and input closed before creation; output closed at %dns, later than ceil(N/Quantity)*Interval + Interval/100 = %dns", total, tr.ClosedAt, bound)
				}
			}
		}
	}
	return
}

func wsOf(tr *LimitTrace, sc LimitScenario, j int) int64 {
	if j >= sc.Prefill && j < len(tr.WS) {
		return tr.WS[j]
	}
	return 0
}

func prevM(m []int64, j int) int64 {
	if j == 0 {
		return 0
	}
	return m[j-1]
}

func prevRecv(tr *LimitTrace, j int) int64 {
	if j == 0 {
		return 0
	}
	return tr.Recv[j-1]
}

func qBefore(tr *LimitTrace, jq int64) string {
	if jq < 0 {
		return "(none)"
	}
	return fmt.Sprintf("at %dns", tr.Recv[jq])
}

type limitGen struct {
	Real    bool
	Upfront bool // favour the C12 shapes (counts around multiples of Quantity, prefilled)
}

func genLimitScenario(rng *rand.Rand, g limitGen) LimitScenario {
	sc := LimitScenario{Real: g.Real, Consumer: "eager"}
	switch rng.IntN(6) {
	case 0:
		sc.Q = 1
	case 1:
		sc.Q = uint64(2 + rng.IntN(4))
	case 2:
		sc.Q = uint64(10 + rng.IntN(90))
	case 3:
		sc.Q = uint64(100 + rng.IntN(901))
	default:
		sc.Q = uint64(1 + rng.IntN(20))
	}
	if rng.IntN(40) == 0 { // "unlimited": beyond any signed 64-bit count
		sc.Q = []uint64{1<<63 - 1, 1 << 63, 1<<63 + 1, ^uint64(0), ^uint64(0) - 1, 1 << 62}[rng.IntN(6)]
	}
	if g.Real {
		sc.I = int64(2+rng.IntN(30)) * int64(time.Millisecond)
		if sc.Q > 50 && sc.Q < 1<<40 {
			sc.Q = uint64(1 + rng.IntN(50))
		}
	} else {
		switch rng.IntN(5) {
		case 0:
			sc.I = int64(1+rng.IntN(50)) * int64(time.Microsecond)
		case 1:
			sc.I = int64(1+rng.IntN(1000)) * int64(time.Millisecond)
		case 2:
			sc.I = int64(1+rng.IntN(10)) * int64(time.Second)
		case 3:
			sc.I = 1 + rng.Int64N(int64(time.Second))
		default:
			sc.I = int64(10 * time.Millisecond)
		}
		if rng.IntN(25) == 0 {
			year := int64(365 * 24 * time.Hour)
			sc.I = []int64{1, 2, 7, year / 12, year}[rng.IntN(5)]
		}
	}
	q := int(min(sc.Q, 64))
	// total element count around the boundaries (for an "unlimited" Quantity: a few dozen elements)
	var n int
	switch rng.IntN(8) {
	case 0:
		n = 0
	case 1:
		n = 1
	case 2:
		n = max(q-1, 0)
	case 3:
		n = q
	case 4:
		n = q + 1
	case 5:
		n = q * (1 + rng.IntN(5))
	case 6:
		n = q*(1+rng.IntN(5)) + []int{-1, 1}[rng.IntN(2)]
	default:
		n = rng.IntN(6*q + 2)
	}
	if sc.I > int64(24*time.Hour) && n/q > 10 {
		n = q*10 + n%q // the fake clock is a 64-bit nanosecond counter: keep the run within a century
	}
	maxN := 4000
	if g.Real {
		maxN = 400
		if n/q > 12 {
			n = q * 12
		}
	}
	if n > maxN {
		n = maxN
	}
	if n < 0 {
		n = 0
	}
	switch rng.IntN(4) {
	case 0:
		sc.InCap = 0
	case 1:
		sc.InCap = 1
	case 2:
		sc.InCap = rng.IntN(q + 2)
	default:
		sc.InCap = n + 1
	}
	shape := rng.IntN(5)
	if g.Upfront {
		shape = rng.IntN(3)
	}
	switch shape {
	case 0: // everything up-front, input closed before creation
		sc.InCap = n + 1
		sc.Prefill = n
		sc.PrefillClosed = true
	case 1: // everything up-front, input closed afterwards
		sc.InCap = n + 1
		sc.Prefill = n
	case 2: // fewer than Quantity in total, any arrival pattern
		if g.Upfront && q > 1 {
			n = rng.IntN(q)
		}
		fallthrough
	default: // trickle / stall-then-burst / bursts of k*Q +- 1
		left := n
		if sc.InCap > 0 && rng.IntN(3) == 0 {
			sc.Prefill = min(left, rng.IntN(sc.InCap+1))
			left -= sc.Prefill
		}
		for left > 0 {
			st := LimitStep{}
			switch rng.IntN(5) {
			case 0:
				st.Gap = 0
			case 1:
				st.Gap = sc.I/2 + rng.Int64N(sc.I*5+1) // stall of 0.5 .. 5.5 intervals
			case 2:
				st.Gap = rng.Int64N(sc.I/4 + 1)
			case 3:
				st.Gap = sc.I
			default:
				st.Gap = rng.Int64N(2*sc.I + 1)
			}
			if g.Real && st.Gap > int64(60*time.Millisecond) {
				st.Gap = int64(60 * time.Millisecond)
			}
			switch rng.IntN(4) {
			case 0:
				st.N = 1
			case 1:
				st.N = q*(1+rng.IntN(2)) + rng.IntN(3) - 1
			default:
				st.N = 1 + rng.IntN(q+1)
			}
			if st.N < 1 {
				st.N = 1
			}
			if st.N > left {
				st.N = left
			}
			left -= st.N
			sc.Steps = append(sc.Steps, st)
		}
	}
	if rng.IntN(3) == 0 && !(g.Upfront) {
		sc.Consumer = "slow"
		for i := 0; i < sc.total()+1; i++ {
			var dl int64
			switch rng.IntN(4) {
			case 0:
				dl = rng.Int64N(sc.I + 1)
			case 1:
				dl = 3 * sc.I
			}
			if g.Real && dl > int64(20*time.Millisecond) {
				dl = int64(20 * time.Millisecond)
			}
			sc.ConsDelay = append(sc.ConsDelay, dl)
		}
	}
	// the fake clock is a 64-bit nanosecond counter that starts in the year 2000: keep the whole
	// scenario within a few decades of virtual time
	year := int64(365 * 24 * time.Hour)
	for {
		var est int64
		for _, st := range sc.Steps {
			est += st.Gap
		}
		for _, d := range sc.ConsDelay {
			est += d
		}
		est += (int64(sc.total())/int64(min(sc.Q, 1<<40)) + 3) * sc.I
		if est >= 0 && est < 40*year && sc.I <= 2*year {
			break
		}
		if sc.I > int64(time.Hour) {
			sc.I /= 16
		}
		for i := range sc.Steps {
			sc.Steps[i].Gap = min(sc.Steps[i].Gap, 2*sc.I)
		}
		for i := range sc.ConsDelay {
			sc.ConsDelay[i] = min(sc.ConsDelay[i], 2*sc.I)
		}
		if len(sc.Steps) > 8 {
			sc.Steps = sc.Steps[:8]
		}
		if len(sc.ConsDelay) > 12 {
			sc.ConsDelay = sc.ConsDelay[:12]
		}
	}
	return sc
}
