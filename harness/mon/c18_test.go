package mon

// C18 — handler-quantity helpers (v1 and v2) against their definition, evaluated by brute
// force over all order-preserving subsets with a per-member lookup; non-fatal => v2 New accepts.

import (
	"fmt"
	"math/rand/v2"
	"sort"
	"testing"

	v1prio "github.com/akramarenkov/cqos/priority"
	v2prio "github.com/akramarenkov/cqos/v2/priority"
	"github.com/akramarenkov/cqos/v2/priority/divider"
	"github.com/akramarenkov/cqos/v2/priority/utils"
)

type helperCase struct {
	Kind  string `json:"divider"`
	Prios []uint `json:"priorities"` // as passed (possibly unsorted)
}

var helperLimits = []float64{0, 1, 5, 10, 25, 50, 100}

var prioPools = [][]uint{
	{5, 4, 3, 2, 1}, {70, 20, 10, 5, 1}, {1000, 100, 7, 3, 1}, {9, 8, 7, 6, 5}, {16, 15, 12, 5, 2},
	{14, 13, 12, 1}, {3, 2, 1}, {100, 50, 25, 12, 6, 3}, {6, 5, 4, 3, 2, 1}, {1000, 1},
}

func genHelperCase(rng *rand.Rand) helperCase {
	c := helperCase{Kind: "fair"}
	if rng.IntN(4) != 0 {
		c.Kind = "rate"
	}
	switch rng.IntN(3) {
	case 0:
		pool := prioPools[rng.IntN(len(prioPools))]
		n := 1 + rng.IntN(len(pool))
		perm := rng.Perm(len(pool))[:n]
		for _, i := range perm {
			c.Prios = append(c.Prios, pool[i])
		}
	case 1:
		c.Prios = genPrioList(rng, 6, 40)
		rng.Shuffle(len(c.Prios), func(i, j int) { c.Prios[i], c.Prios[j] = c.Prios[j], c.Prios[i] })
	default:
		c.Prios = genPrioList(rng, 6, 1<<12)
		rng.Shuffle(len(c.Prios), func(i, j int) { c.Prios[i], c.Prios[j] = c.Prios[j], c.Prios[i] })
	}
	return c
}

// bruteNonFatal is the definition: every member of every non-empty subset (sorted high to
// low) gets at least one unit of q from the divider.
func bruteNonFatal(sorted []uint, div divider.Divider, q uint) bool {
	n := len(sorted)
	sub := make([]uint, 0, n)
	for mask := 1; mask < 1<<n; mask++ {
		sub = sub[:0]
		for i := 0; i < n; i++ {
			if mask&(1<<i) != 0 {
				sub = append(sub, sorted[i])
			}
		}
		dist := map[uint]uint{}
		div(sub, q, dist)
		for _, p := range sub {
			if dist[p] < 1 {
				return false
			}
		}
	}
	return true
}

func v1AsV2(d v1prio.Divider) divider.Divider {
	return func(p []uint, q uint, dist map[uint]uint) { d(p, q, dist) }
}

const helperMaxQ = 300

func TestC18(t *testing.T) {
	r := newRun(t, "C18", "exploration")
	defer r.Finish(t)
	r.Rule = "cases = (priority set of 1..6 distinct values from fixed pools / dense / sparse magnitudes, passed unsorted; Fair|Rate); per case, for q in 0..300 (quick: every 3rd q plus a seeded offset; thorough: all): v1 and v2 IsNonFatalConfig vs brute force over all 2^n-1 order-preserving subsets with per-member lookup; IsSuitableConfig at limits {0,1,5,10,25,50,100}: implies non-fatal and monotone in the limit; PickUpMin/Max* for several max in 0..300 vs first/last q of the real predicate's table; for the smallest and two more non-fatal q: v2 New on closed inputs must succeed and terminate. non-trivial = a case whose predicate table contains both true and false (the boundary is exercised); distinct by (divider, sorted priorities)"
	r.Assumptions = []string{"the real Fair/Rate dividers are used by both the helpers and the brute-force definition (C14 judges the dividers themselves)"}
	r.Floor = 10

	runCase := func(c helperCase, rng *rand.Rand) {
		r.Eval(1)
		var d2 divider.Divider
		var d1 v1prio.Divider
		if c.Kind == "fair" {
			d2, d1 = divider.Fair, v1prio.FairDivider
		} else {
			d2, d1 = divider.Rate, v1prio.RateDivider
		}
		sorted := append([]uint(nil), c.Prios...)
		sort.Slice(sorted, func(i, j int) bool { return sorted[i] > sorted[j] })
		in := func() []uint { return append([]uint(nil), c.Prios...) }
		viol := func(what, msg string, q uint) {
			r.Violation("C18", fmt.Sprintf("%s:%s:%v:q=%d", what, c.Kind, sorted, q), msg, map[string]any{"case": c, "q": q})
		}

		step, off := 3, rng.IntN(3)
		if r.Cfg.thorough() {
			step, off = 1, 0
		}
		// predicate tables of the real functions (full range: the PickUp oracle needs them)
		nf := make([]bool, helperMaxQ+1)
		sawT, sawF := false, false
		for q := uint(0); q <= helperMaxQ; q++ {
			nf[q] = utils.IsNonFatalConfig(in(), d2, q)
			r.Count("predicate_evaluations", 1)
			if nf[q] {
				sawT = true
			} else {
				sawF = true
			}
			if int(q)%step == off || q < 12 {
				want := bruteNonFatal(sorted, d2, q)
				if nf[q] != want {
					viol("v2.IsNonFatalConfig", fmt.Sprintf("v2 IsNonFatalConfig(%v,%s,%d)=%v but the subset definition gives %v", c.Prios, c.Kind, q, nf[q], want), q)
				}
				got1 := v1prio.IsNonFatalConfig(in(), d1, q)
				want1 := bruteNonFatal(sorted, v1AsV2(d1), q)
				r.Count("predicate_evaluations", 1)
				if got1 != want1 {
					viol("v1.IsNonFatalConfig", fmt.Sprintf("v1 IsNonFatalConfig(%v,%s,%d)=%v but the subset definition gives %v", c.Prios, c.Kind, q, got1, want1), q)
				}
			}
		}
		if sawT && sawF {
			r.NonTrivial(fmt.Sprint(c.Kind, sorted))
		}
		// suitable: implication and monotonicity, per-limit tables for the PickUp oracle
		suit := make([][]bool, len(helperLimits))
		for li := range helperLimits {
			suit[li] = make([]bool, helperMaxQ+1)
		}
		for q := uint(0); q <= helperMaxQ; q++ {
			if !(r.Cfg.thorough() || int(q)%step == off || q < 12) {
				continue
			}
			prev := false
			for li, lim := range helperLimits {
				s2 := utils.IsSuitableConfig(in(), d2, q, lim)
				suit[li][q] = s2
				r.Count("predicate_evaluations", 1)
				if s2 && !nf[q] {
					viol("v2.IsSuitableConfig", fmt.Sprintf("v2 IsSuitableConfig(%v,%s,%d,%v)=true but IsNonFatalConfig=false", c.Prios, c.Kind, q, lim), q)
				}
				if prev && !s2 {
					viol("v2.IsSuitableConfig", fmt.Sprintf("v2 IsSuitableConfig(%v,%s,%d,·) true at a smaller limit but false at %v", c.Prios, c.Kind, q, lim), q)
				}
				prev = s2
				if li%3 == 0 {
					s1 := v1prio.IsSuitableConfig(in(), d1, q, lim)
					n1 := v1prio.IsNonFatalConfig(in(), d1, q)
					if s1 && !n1 {
						viol("v1.IsSuitableConfig", fmt.Sprintf("v1 IsSuitableConfig(%v,%s,%d,%v)=true but IsNonFatalConfig=false", c.Prios, c.Kind, q, lim), q)
					}
					if s1 != s2 {
						viol("v1v2.IsSuitableConfig", fmt.Sprintf("IsSuitableConfig(%v,%s,%d,%v): v1=%v v2=%v", c.Prios, c.Kind, q, lim, s1, s2), q)
					}
				}
			}
		}
		// PickUp*: first / last q in [1,max] of the real predicate
		first := func(tab func(q uint) bool, max uint) uint {
			for q := uint(1); q <= max; q++ {
				if tab(q) {
					return q
				}
			}
			return 0
		}
		last := func(tab func(q uint) bool, max uint) uint {
			for q := max; q != 0; q-- {
				if tab(q) {
					return q
				}
			}
			return 0
		}
		maxes := []uint{0, 1, uint(len(sorted)), uint(rng.IntN(helperMaxQ + 1)), uint(rng.IntN(40)), helperMaxQ}
		nfTab := func(q uint) bool { return nf[q] }
		for _, mx := range maxes {
			r.Count("pickup_calls", 4)
			if got, want := utils.PickUpMinNonFatalQuantity(in(), d2, mx), first(nfTab, mx); got != want {
				viol("v2.PickUpMinNonFatalQuantity", fmt.Sprintf("v2 PickUpMinNonFatalQuantity(%v,%s,%d)=%d, smallest q in [1,max] with IsNonFatalConfig is %d", c.Prios, c.Kind, mx, got, want), mx)
			}
			if got, want := utils.PickUpMaxNonFatalQuantity(in(), d2, mx), last(nfTab, mx); got != want {
				viol("v2.PickUpMaxNonFatalQuantity", fmt.Sprintf("v2 PickUpMaxNonFatalQuantity(%v,%s,%d)=%d, largest q in [1,max] with IsNonFatalConfig is %d", c.Prios, c.Kind, mx, got, want), mx)
			}
			if got, want := v1prio.PickUpMinNonFatalQuantity(in(), d1, mx), first(nfTab, mx); got != want {
				viol("v1.PickUpMinNonFatalQuantity", fmt.Sprintf("v1 PickUpMinNonFatalQuantity(%v,%s,%d)=%d, want %d", c.Prios, c.Kind, mx, got, want), mx)
			}
			if got, want := v1prio.PickUpMaxNonFatalQuantity(in(), d1, mx), last(nfTab, mx); got != want {
				viol("v1.PickUpMaxNonFatalQuantity", fmt.Sprintf("v1 PickUpMaxNonFatalQuantity(%v,%s,%d)=%d, want %d", c.Prios, c.Kind, mx, got, want), mx)
			}
		}
		// suitable pick-ups: evaluated against the real predicate directly (small max to bound cost)
		for _, lim := range []float64{helperLimits[rng.IntN(len(helperLimits))], 25} {
			mx := uint(rng.IntN(60))
			tab := func(q uint) bool { return utils.IsSuitableConfig(in(), d2, q, lim) }
			r.Count("pickup_calls", 3)
			if got, want := utils.PickUpMinSuitableQuantity(in(), d2, mx, lim), first(tab, mx); got != want {
				viol("v2.PickUpMinSuitableQuantity", fmt.Sprintf("v2 PickUpMinSuitableQuantity(%v,%s,%d,%v)=%d, want %d", c.Prios, c.Kind, mx, lim, got, want), mx)
			}
			if got, want := utils.PickUpMaxSuitableQuantity(in(), d2, mx, lim), last(tab, mx); got != want {
				viol("v2.PickUpMaxSuitableQuantity", fmt.Sprintf("v2 PickUpMaxSuitableQuantity(%v,%s,%d,%v)=%d, want %d", c.Prios, c.Kind, mx, lim, got, want), mx)
			}
			tab1 := func(q uint) bool { return v1prio.IsSuitableConfig(in(), d1, q, lim) }
			if got, want := v1prio.PickUpMinSuitableQuantity(in(), d1, mx, lim), first(tab1, mx); got != want {
				viol("v1.PickUpMinSuitableQuantity", fmt.Sprintf("v1 PickUpMinSuitableQuantity(%v,%s,%d,%v)=%d, want %d", c.Prios, c.Kind, mx, lim, got, want), mx)
			}
			if got, want := v1prio.PickUpMaxSuitableQuantity(in(), d1, mx, lim), last(tab1, mx); got != want {
				viol("v1.PickUpMaxSuitableQuantity", fmt.Sprintf("v1 PickUpMaxSuitableQuantity(%v,%s,%d,%v)=%d, want %d", c.Prios, c.Kind, mx, lim, got, want), mx)
			}
		}
		// non-fatal => accepted by the v2 constructor (and the discipline terminates on closed inputs)
		var nfq []uint
		for q := uint(1); q <= helperMaxQ; q++ {
			if nf[q] {
				nfq = append(nfq, q)
			}
		}
		tryNew := func(q uint) {
			inputs := map[uint]<-chan int{}
			for _, p := range sorted {
				ch := make(chan int)
				close(ch)
				inputs[p] = ch
			}
			d, err := v2prio.New(v2prio.Opts[int]{Divider: d2, HandlersQuantity: q, Inputs: inputs})
			r.Count("constructor_calls", 1)
			if err != nil {
				viol("v2.New", fmt.Sprintf("IsNonFatalConfig(%v,%s,%d)=true but v2 priority.New returned %v", c.Prios, c.Kind, q, err), q)
				return
			}
			for range d.Output() {
			}
			<-d.Err()
		}
		if len(nfq) > 0 {
			tryNew(nfq[0])
			tryNew(nfq[rng.IntN(len(nfq))])
			tryNew(nfq[len(nfq)-1])
		}
		if r.WantSample() {
			r.Sample(map[string]any{"case": c, "min_non_fatal_q": first(nfTab, helperMaxQ), "non_fatal_q_count_in_1_300": len(nfq)})
		}
	}

	if r.Cfg.Replay != "" {
		var doc struct {
			Witness struct{ Case helperCase }
		}
		if err := readJSON(r.Cfg.Replay, &doc); err != nil {
			t.Fatal(err)
		}
		runCase(doc.Witness.Case, r.Cfg.caseRNG("replay", 0))
		return
	}

	// fixed cases first: the pools themselves (sorted and reversed) under both dividers
	var fixed []helperCase
	for _, pool := range prioPools {
		for _, kind := range []string{"fair", "rate"} {
			fixed = append(fixed, helperCase{Kind: kind, Prios: pool})
			rev := append([]uint(nil), pool...)
			sort.Slice(rev, func(i, j int) bool { return rev[i] < rev[j] })
			fixed = append(fixed, helperCase{Kind: kind, Prios: rev})
		}
	}
	r.Parallel(t, "fixed", len(fixed), func(t *testing.T, idx int, rng *rand.Rand) { runCase(fixed[idx], rng) })
	n := r.Cfg.pick(600, 8000)
	r.Parallel(t, "random", n, func(t *testing.T, idx int, rng *rand.Rand) { runCase(genHelperCase(rng), rng) })
}
